"""C20 — display normalisation: in-place discipline, range/monotonicity table, end points,
inverse pairs, NaN handling (E6 targeted forms, E8)."""
from __future__ import annotations

import ast
from fractions import Fraction
from typing import Optional

from ..core.repo import (AnalysisError, Repo, attrs_in, call_name, calls_in, definitions, dotted, func_params, is_const,
                         kwarg, names_in, unparse, walk_no_nested_defs)
from ..domains.algnf import NotArithmetic, Poly, Rat, from_ast

CN = "quantem.core.visualization.custom_normalizations"
STRETCHES = ["LinearStretch", "PowerLawStretch", "LogarithmicStretch", "InverseLogarithmicStretch",
             "InverseHyperbolicSineStretch", "HyperbolicSineStretch"]
INTERVALS = ["ManualInterval", "CenteredInterval", "QuantileInterval"]

# elementwise primitives: (NaN-propagating?, monotone non-decreasing under which condition on the 2nd operand)
PRIMS = {
    "np.clip": (True, "always"), "np.multiply": (True, "c>0"), "np.true_divide": (True, "c>0"), "np.divide": (True, "c>0"),
    "np.add": (True, "always"), "np.subtract": (True, "always"), "np.power": (True, "c>0"), "np.log": (True, "always"),
    "np.exp": (True, "always"), "np.arcsinh": (True, "always"), "np.sinh": (True, "always"), "np.sqrt": (True, "always"),
    "np.log10": (True, "always"), "np.log1p": (True, "always"), "np.expm1": (True, "always"),
}
NAN_SWALLOWING = {"np.fmax", "np.fmin", "np.nan_to_num", "np.where", "np.nanmax", "np.nanmin", "np.putmask", "np.copyto",
                  "np.nanpercentile", "np.nanquantile", "np.place"}

EXPLANATION = (
    "each stretch/interval __call__ is read as a straight-line pipeline of elementwise primitives "
    "acting through out= on one array: the in-place discipline is checked path by path, every "
    "primitive is NaN-propagating and monotone under the parameter signs the __post_init__ guards "
    "establish, parameters are read from the (mutable) dataclass fields at call time; the pipeline "
    "is evaluated symbolically (with the odd/inverse-function rewrites for log/exp/sinh/asinh/power) "
    "at 0 and 1, and composed with the declared inverse to the identity; data-derived limits use "
    "finite values only; the result is masked_invalid of the pipeline"
)


# ---------------------------------------------------------------------------------- symbolic pipelines
class Sym:
    """Symbolic scalar evaluator with function atoms and rewrite rules."""

    def __init__(self):
        self.atoms: dict[str, tuple[str, Rat]] = {}  # atom name → (function, argument)

    def atom(self, func: str, arg: Rat) -> Rat:
        # canonical sign for odd functions
        if func in ("arcsinh", "sinh") and self._neg_leading(arg):
            return -self.atom(func, -arg)
        for name, (f, a) in self.atoms.items():
            if f == func and a.equals(arg):
                return Rat.sym(name)
        name = f"{func}#{len(self.atoms)}"
        self.atoms[name] = (func, arg)
        return Rat.sym(name)

    @staticmethod
    def _neg_leading(r: Rat) -> bool:
        if not r.n.t:
            return False
        k = sorted(r.n.t)[0]
        lead = r.n.t[k]
        dlead = r.d.t[sorted(r.d.t)[0]] if r.d.t else 1
        return (lead < 0) != (dlead < 0)

    def as_atom(self, v: Rat, func: str) -> Optional[Rat]:
        """If v equals one registered atom of `func`, return its argument."""
        for name, (f, a) in self.atoms.items():
            if f == func and v.equals(Rat.sym(name)):
                return a
        return None

    def apply(self, func: str, v: Rat, p: Optional[Rat] = None) -> Rat:
        one, zero = Rat.const(1), Rat.const(0)
        if func == "log1p":
            return self.apply("log", v + one)
        if func == "expm1":
            return self.apply("exp", v) - one
        if func == "log":
            if v.equals(one):
                return zero
            inner = self.as_atom(v, "exp")
            return inner if inner is not None else self.atom("log", v)
        if func == "exp":
            if v.equals(zero):
                return one
            inner = self.as_atom(v, "log")
            return inner if inner is not None else self.atom("exp", v)
        if func in ("sinh", "arcsinh"):
            if v.equals(zero):
                return zero
            inv = "arcsinh" if func == "sinh" else "sinh"
            inner = self.as_atom(v, inv)
            if inner is not None:
                return inner
            neg = self.as_atom(-v, inv)
            if neg is not None:
                return -neg
            return self.atom(func, v)
        if func == "power":
            assert p is not None
            if v.equals(zero):
                return zero
            if v.equals(one):
                return one
            if p.equals(one):
                return v
            for name, (f, a) in list(self.atoms.items()):
                if f.startswith("pow:") and v.equals(Rat.sym(name)):
                    q = self._pows[name]
                    return self.apply("power", a, q * p)
            r = self.atom(f"pow:{p}", v)
            self.__dict__.setdefault("_pows", {})[next(n for n in r.n.symbols())] = p
            return r
        raise AnalysisError(f"no symbolic rule for {func}")

    _pows: dict = {}


def _const_expr(sym: Sym, e: ast.AST, fields: dict[str, Rat]) -> Rat:
    """Evaluate a scalar parameter expression (self.a, np.log(self.a + 1.0), 1.0 / np.arcsinh(…))."""
    if isinstance(e, ast.Constant) and isinstance(e.value, (int, float)) and not isinstance(e.value, bool):
        return Rat.const(Fraction(str(e.value)))
    if isinstance(e, ast.Attribute) and dotted(e.value) == "self":
        if e.attr in fields:
            return fields[e.attr]
        raise AnalysisError(f"stretch parameter self.{e.attr} is not a dataclass field")
    if isinstance(e, ast.Name) and e.id in fields:
        return fields[e.id]
    if isinstance(e, ast.UnaryOp) and isinstance(e.op, ast.USub):
        return -_const_expr(sym, e.operand, fields)
    if isinstance(e, ast.BinOp) and isinstance(e.op, (ast.Add, ast.Sub, ast.Mult, ast.Div)):
        l, r = _const_expr(sym, e.left, fields), _const_expr(sym, e.right, fields)
        return {ast.Add: l.__add__, ast.Sub: l.__sub__, ast.Mult: l.__mul__, ast.Div: l.__truediv__}[type(e.op)](r)
    if isinstance(e, ast.Call):
        cn = call_name(e) or ""
        if cn in ("np.log", "np.exp", "np.arcsinh", "np.sinh", "np.log1p", "np.expm1") and len(e.args) == 1:
            return sym.apply(cn.split(".")[1], _const_expr(sym, e.args[0], fields))
    raise AnalysisError(f"parameter expression `{unparse(e)}` not understood")


class Pipeline:
    """The straight-line list of (primitive, operand expr) of a stretch/interval __call__."""

    def __init__(self, cls: ast.ClassDef, fn: ast.FunctionDef):
        self.cls, self.fn = cls, fn
        self.arr = fn.args.args[1].arg
        self.ops: list[tuple[str, Optional[ast.AST], ast.Call, bool]] = []  # (prim, operand, call node, conditional)
        self.problems: list[tuple[ast.AST, str]] = []
        self.early_returns: list[ast.Return] = []
        self.scalars: dict[str, ast.AST] = {}
        self.rebind: Optional[ast.Assign] = None
        self.final_return_ok = False
        self._scan(fn.body, False)

    def _scan(self, body, conditional: bool) -> None:
        for st in body:
            if isinstance(st, ast.Expr) and isinstance(st.value, ast.Constant):
                continue
            if isinstance(st, ast.Return):
                if st.value is None or unparse(st.value) != self.arr:
                    self.problems.append((st, f"returns `{unparse(st.value) if st.value else None}` instead of the array"))
                elif self.rebind is None:
                    self.early_returns.append(st)
                elif conditional:
                    self.problems.append((st, f"line {st.lineno}: a conditional `return {self.arr}` after the working array was created skips the remaining steps (e.g. the final clip)"))
                else:
                    self.final_return_ok = True
                continue
            if isinstance(st, ast.If):
                # a guard that returns the argument untouched, or conditionally applied primitives
                self._scan(st.body, True)
                if st.orelse:
                    self._scan(st.orelse, True)
                continue
            if isinstance(st, ast.Assign) and dotted(st.targets[0]) == self.arr:
                v = st.value
                cn = call_name(v) if isinstance(v, ast.Call) else None
                if cn == "np.array" and v.args and unparse(v.args[0]) == self.arr and self.rebind is None:
                    c = kwarg(v, "copy")
                    if c is None or unparse(c) != "copy":
                        self.problems.append((st, "np.array(values, …) does not forward copy=copy"))
                    self.rebind = st
                    continue
                if cn in ("np.subtract", "np.multiply") and self.rebind is None and v.args and unparse(v.args[0]) == self.arr and kwarg(v, "out") is None:
                    # intervals: the first step creates the working array
                    self.rebind = st
                    self.ops.append((cn, v.args[1] if len(v.args) > 1 else None, v, conditional))
                    continue
                if cn == f"{self.arr}.astype" or (isinstance(v, ast.Call) and isinstance(v.func, ast.Attribute) and v.func.attr == "astype"):
                    continue  # dtype promotion of the working array
                if cn in ("np.asarray", "np.asanyarray") and v.args and unparse(v.args[0]) == self.arr and self.rebind is None:
                    continue  # a view of the caller's data: nothing is written until the working array exists (checked for every in-place step)
                self.problems.append((st, f"`{unparse(st)[:60]}` rebinds the array instead of acting in place"))
                continue
            if isinstance(st, ast.Assign) and isinstance(st.targets[0], ast.Tuple):
                continue  # vmin, vmax = self.get_limits(values)
            if isinstance(st, ast.Assign) and len(st.targets) == 1 and isinstance(st.targets[0], ast.Name) and st.targets[0].id != self.arr \
                    and self.arr not in {n.id for n in ast.walk(st.value) if isinstance(n, ast.Name)}:
                self.scalars[st.targets[0].id] = st.value  # a scalar intermediate (span = vmax - vmin): no effect on the array, resolved when evaluated
                continue
            if isinstance(st, ast.Expr) and isinstance(st.value, ast.Call):
                c = st.value
                cn = call_name(c) or ""
                if cn.startswith("np."):
                    out = kwarg(c, "out")
                    if not c.args or unparse(c.args[0]) != self.arr:
                        self.problems.append((st, f"`{unparse(c)[:50]}` does not take the array as its input"))
                    elif out is None:
                        self.problems.append((st, f"`{unparse(c)[:50]}` has no out=: its result is discarded"))
                    elif unparse(out) != self.arr:
                        self.problems.append((st, f"`{unparse(c)[:50]}` writes to `{unparse(out)}`"))
                    elif self.rebind is None:
                        self.problems.append((st, f"`{unparse(c)[:50]}` writes into the caller's array: no working copy has been made yet"))
                    operand = c.args[1] if len(c.args) > 1 else None
                    if cn == "np.clip":
                        operand = ast.Tuple(elts=list(c.args[1:3]), ctx=ast.Load())
                    self.ops.append((cn, operand, c, conditional))
                    continue
            self.problems.append((st, f"statement `{unparse(st)[:60]}` is not part of the in-place pipeline idiom"))


def _fields(cls: ast.ClassDef) -> dict[str, Optional[ast.AST]]:
    out = {}
    for st in cls.body:
        if isinstance(st, ast.AnnAssign) and isinstance(st.target, ast.Name):
            out[st.target.id] = st.value
    return out


def _is_frozen(cls: ast.ClassDef) -> bool:
    for d in cls.decorator_list:
        if isinstance(d, ast.Call) and is_const(kwarg(d, "frozen"), True):
            return True
    return False


def _positive_guards(cls: ast.ClassDef) -> set[str]:
    """Fields f for which __post_init__ raises when self.f <= 0."""
    out = set()
    for fn in cls.body:
        if isinstance(fn, ast.FunctionDef) and fn.name == "__post_init__":
            for n in ast.walk(fn):
                if isinstance(n, ast.If) and any(isinstance(x, ast.Raise) for x in n.body) and isinstance(n.test, ast.Compare) and len(n.test.ops) == 1:
                    l, op, r = n.test.left, n.test.ops[0], n.test.comparators[0]
                    if isinstance(l, ast.Attribute) and dotted(l.value) == "self" and isinstance(op, ast.LtE) and isinstance(r, ast.Constant) and r.value == 0:
                        out.add(l.attr)
    return out


def _positive(e: ast.AST, pos_fields: set[str]) -> Optional[bool]:
    """Is the scalar expression provably > 0 given positive fields?"""
    if isinstance(e, ast.Constant) and isinstance(e.value, (int, float)):
        return e.value > 0
    if isinstance(e, ast.Attribute) and dotted(e.value) == "self":
        return True if e.attr in pos_fields else None
    if isinstance(e, ast.BinOp) and isinstance(e.op, (ast.Add, ast.Mult, ast.Div)):
        l, r = _positive(e.left, pos_fields), _positive(e.right, pos_fields)
        return True if (l and r) else None
    if isinstance(e, ast.Call) and len(e.args) == 1:
        cn = call_name(e)
        a = e.args[0]
        if cn in ("np.arcsinh", "np.sinh", "np.sqrt", "np.log1p", "np.expm1"):  # odd / zero-at-zero increasing functions: positive on positives
            return True if _positive(a, pos_fields) else None
        if cn == "np.log":  # log(1 + positive) > 0
            if isinstance(a, ast.BinOp) and isinstance(a.op, ast.Add):
                parts = [a.left, a.right]
                ones = [p for p in parts if isinstance(p, ast.Constant) and p.value >= 1]
                rest = [p for p in parts if p not in ones]
                if ones and all(_positive(p, pos_fields) for p in rest):
                    return True
            return None
        if cn == "np.exp":
            return True
    return None


def run(check, repo: Repo) -> None:
    mod = repo.module(CN)
    classes = {c.name: c for c in mod.tree.body if isinstance(c, ast.ClassDef)}
    for need in STRETCHES + INTERVALS + ["BaseInterval", "CustomNormalization"]:
        if need not in classes:
            raise AnalysisError(f"class {need} not found")
    check.analysed(*(f"{CN}:{c}" for c in STRETCHES + INTERVALS + ["BaseInterval", "CustomNormalization"]))
    pipes: dict[str, Pipeline] = {}

    # ---- R1 in-place discipline ---------------------------------------------------------------------
    for name in STRETCHES:
        cls = classes[name]
        call = next((f for f in cls.body if isinstance(f, ast.FunctionDef) and f.name == "__call__"), None)
        if call is None:
            raise AnalysisError(f"{name}.__call__ not found")
        p = Pipeline(cls, call)
        pipes[name] = p
        ok = not p.problems and p.rebind is not None and p.final_return_ok
        check.decide(ok, "C20-R1", f"{name}.__call__: returns the argument untouched or acts only through out= on np.array(values, copy=copy) and returns it",
                     f"{len(p.ops)} primitives, {len(p.early_returns)} pass-through returns", mod.line(call),
                     fail_detail="; ".join(f"line {getattr(n, 'lineno', '?')}: {m}" for n, m in p.problems) or "no working array / no final `return values`"
                     + " — CustomNormalization discards the stretch's return value (copy=False), so an operation that is not in place is silently lost")
        # early returns are only allowed under a guard that makes the stretch the identity
        for r in p.early_returns:
            par = getattr(r, "_parent", None)
            # a guard conjunct is `self.p == <const>` or, for the value 0, its truthiness spelling `not self.p`
            ident = isinstance(par, ast.If) and all(
                (isinstance(c, ast.Compare) and isinstance(c.ops[0], ast.Eq) and isinstance(c.left, ast.Attribute))
                or (isinstance(c, ast.UnaryOp) and isinstance(c.op, ast.Not) and isinstance(c.operand, ast.Attribute) and dotted(c.operand.value) == "self") for c in
                (par.test.values if isinstance(par.test, ast.BoolOp) and isinstance(par.test.op, ast.And) else [par.test]))
            check.decide(ident, "C20-R1", f"{name}.__call__: the pass-through return is guarded by parameter values that make the stretch the identity",
                         unparse(par.test) if isinstance(par, ast.If) else "", mod.line(r),
                         fail_detail="an unguarded early return skips the stretch")
    bi = classes["BaseInterval"]
    bcall = next(f for f in bi.body if isinstance(f, ast.FunctionDef) and f.name == "__call__")
    bp = Pipeline(bi, bcall)
    pipes["BaseInterval"] = bp
    check.decide(not bp.problems and bp.rebind is not None and bp.final_return_ok, "C20-R1",
                 "BaseInterval.__call__: works on a fresh array (values − vmin) in place and returns it", "", mod.line(bcall),
                 fail_detail="; ".join(m for _, m in bp.problems))
    # integer input: the affine map runs in floating point.  `np.subtract(uint8 array, python int)` stays uint8 (NEP 50) and wraps around below vmin
    arith = [n for n in ast.walk(bcall) if isinstance(n, ast.Call) and (call_name(n) or "") in ("np.subtract", "np.true_divide", "np.divide", "np.multiply", "np.add")
             and n.args and isinstance(n.args[0], ast.Name) and n.args[0].id == bp.arr] + \
            [n for n in ast.walk(bcall) if isinstance(n, ast.BinOp) and isinstance(n.op, (ast.Sub, ast.Div, ast.Mult, ast.Add)) and isinstance(n.left, ast.Name) and n.left.id == bp.arr]
    casts = [n for n in ast.walk(bcall) if isinstance(n, ast.Call) and ((isinstance(n.func, ast.Attribute) and n.func.attr == "astype") or (call_name(n) or "") in ("np.asarray", "np.array", "np.asfarray"))
             and any("float" in unparse(a) for a in list(n.args) + [k.value for k in n.keywords])]
    if not arith:
        raise AnalysisError("BaseInterval.__call__: arithmetic on the value array not found")
    first = min(arith, key=lambda n: (n.lineno, n.col_offset))
    ok = any((c.lineno, c.col_offset) < (first.lineno, first.col_offset) for c in casts)
    check.decide(ok, "C20-R1", "BaseInterval.__call__: integer data is converted to floating point BEFORE the first arithmetic step", f"first arithmetic at line {first.lineno}",
                 mod.line(first), fail_detail=f"`{unparse(first)[:60]}` runs on the caller's dtype (the float cast comes afterwards or not at all): for unsigned-integer data and a Python-int "
                                              f"lower limit the subtraction wraps around below vmin — ManualInterval(10, 200) sends the uint8 value 5 to 1.0 instead of 0: not monotone")
    # the LIMITS as well: get_limits() of data-derived intervals returns NumPy scalars of the data's dtype (np.min of an int16 array is np.int16), and
    # `vmax − vmin` between two such scalars wraps in that dtype (int16 data spanning [−20000, 20000]: span −25536).  Every limit-to-limit arithmetic step
    # must therefore run on limits that were converted to floating point first.
    binv = next((f for f in bi.body if isinstance(f, ast.FunctionDef) and f.name == "inverse"), None)
    n_span = 0
    for label_, f_ in (("__call__", bcall), ("inverse", binv)):
        if f_ is None:
            raise AnalysisError("BaseInterval.inverse not found")
        lim = set()
        for n in ast.walk(f_):
            if isinstance(n, ast.Assign) and isinstance(n.targets[0], ast.Tuple) and isinstance(n.value, ast.Call) and isinstance(n.value.func, ast.Attribute) \
                    and n.value.func.attr == "get_limits":
                lim |= {t.id for t in n.targets[0].elts if isinstance(t, ast.Name)}
        if len(lim) != 2:
            raise AnalysisError(f"BaseInterval.{label_}: `vmin, vmax = self.get_limits(…)` not found")
        floated = {}
        for n in ast.walk(f_):
            if isinstance(n, ast.Assign):
                tg = n.targets[0].elts if isinstance(n.targets[0], ast.Tuple) else [n.targets[0]]
                vs = n.value.elts if isinstance(n.value, ast.Tuple) and len(n.value.elts) == len(tg) else [n.value] * len(tg)
                for t_, v_ in zip(tg, vs):
                    if isinstance(t_, ast.Name) and t_.id in lim and isinstance(v_, ast.Call) and (call_name(v_) or "") in ("float", "np.float64", "np.double") \
                            and v_.args and isinstance(v_.args[0], ast.Name) and v_.args[0].id == t_.id:
                        floated[t_.id] = min(floated.get(t_.id, 10 ** 9), n.lineno)
        for n in ast.walk(f_):
            if isinstance(n, ast.BinOp) and isinstance(n.op, (ast.Sub, ast.Add, ast.Mult)) and isinstance(n.left, ast.Name) and isinstance(n.right, ast.Name) \
                    and {n.left.id, n.right.id} <= lim and n.left.id != n.right.id:
                n_span += 1
                ok = all(nm in floated and floated[nm] < n.lineno for nm in (n.left.id, n.right.id))
                check.decide(ok, "C20-R1", f"BaseInterval.{label_}: `{unparse(n)}` is computed on limits that were converted to floating point", "", mod.line(n), definite=True,
                             fail_detail=f"`{unparse(n)}` combines the two limits as returned by get_limits(): for signed narrow-integer data they are NumPy scalars of the data's dtype "
                                         f"and the span wraps around (ManualInterval() on int16 [−20000, 0, 20000] returns [0, 0, 0]: the upper limit maps to 0, not 1)")
    check.floor("limit-to-limit arithmetic steps", n_span, 3)
    cn_cls = classes["CustomNormalization"]
    ccall = next(f for f in cn_cls.body if isinstance(f, ast.FunctionDef) and f.name == "__call__")
    body = [s for s in ccall.body if not (isinstance(s, ast.Expr) and isinstance(s.value, ast.Constant))]
    txt = [unparse(s) for s in body]
    ok = len(txt) == 3 and txt[0] == "values = self.interval(value)" and txt[1] in ("self.stretch(values, copy=False)", "values = self.stretch(values, copy=False)") \
        and txt[2] == "return np.ma.masked_invalid(values)"
    check.decide(ok, "C20-R5", "CustomNormalization.__call__ = masked_invalid(stretch(interval(value))) with no NaN replacement in between", str(txt), mod.line(ccall),
                 fail_detail=f"__call__ is {txt}")

    # ---- R2 range, monotonicity, NaN propagation ---------------------------------------------------------
    n_prims = 0
    for name, p in pipes.items():
        cls = classes[name] if name in classes else bi
        pos = _positive_guards(cls)
        flds = _fields(cls)
        first = p.ops[0] if p.ops else None
        if name in STRETCHES:
            clip_first = first is not None and first[0] == "np.clip" and [unparse(x) for x in first[2].args[1:3]] == ["0.0", "1.0"] and not first[3]
            if not clip_first:
                # two defences exist: the interval ends with a clip to [0, 1] and the stretch starts with one.  Inside CustomNormalization the stretch only ever sees
                # the interval's output, so its own clip is redundant exactly when __call__ hands it `self.interval(value)` unchanged and the interval still clips last
                bp = pipes.get("BaseInterval")
                blast = bp.ops[-1] if bp is not None and bp.ops else None
                interval_clips = blast is not None and blast[0] == "np.clip" and [unparse(x) for x in blast[2].args[1:3]] == ["0.0", "1.0"]
                feeds_interval = len(txt) >= 2 and txt[0] == "values = self.interval(value)" and txt[1] in ("self.stretch(values, copy=False)", "values = self.stretch(values, copy=False)")
                if interval_clips and feeds_interval:
                    check.holds("C20-R2", f"{name}.__call__ clips its input to [0, 1] first", "own clip dropped; the stretch is fed the interval's clipped output unchanged", mod.line(p.fn))
                    continue_flag = True
                else:
                    check.violated("C20-R2", f"{name}.__call__ clips its input to [0, 1] first",
                                   "neither defence is left: the stretch no longer clips its input and CustomNormalization.__call__ does not hand it the interval's clipped output "
                                   "(the clip was moved behind the stretch or the interval no longer ends with it) — data outside the limits reaches the power/log with values outside "
                                   "[0, 1]: the map folds back (not monotone) or produces NaN", mod.line(p.fn), definite=True)
            else:
                check.holds("C20-R2", f"{name}.__call__ clips its input to [0, 1] first", "", mod.line(p.fn))
        else:
            last = p.ops[-1] if p.ops else None
            clip_last = last is not None and last[0] == "np.clip" and [unparse(x) for x in last[2].args[1:3]] == ["0.0", "1.0"] and not last[3]
            check.decide(clip_last, "C20-R2", "BaseInterval.__call__ ends with the clip to [0, 1] (NaN-preserving np.clip)", "", mod.line(p.fn),
                         fail_detail="the interval does not end with np.clip(values, 0.0, 1.0, out=values): values leave [0, 1], or NaNs are replaced by numbers "
                                     "(np.fmax/np.fmin/nan_to_num turn a NaN into a number, which masked_invalid can no longer mask)")
        for prim, operand, node, cond in p.ops:
            n_prims += 1
            if prim in NAN_SWALLOWING or prim not in PRIMS:
                check.violated("C20-R5" if prim in NAN_SWALLOWING else "C20-R2", f"{name}.__call__: primitive `{prim}`",
                               (f"`{unparse(node)[:60]}` turns NaN into a number: the NaN is no longer masked in the result" if prim in NAN_SWALLOWING
                                else f"`{prim}` is not in the table of monotone NaN-propagating primitives"), mod.line(node))
                continue
            need = PRIMS[prim][1]
            if need == "c>0" and name != "BaseInterval":
                ok = _positive(operand, pos) if operand is not None else None
                if name == "LinearStretch":
                    # slope has no sign guard; only the default LinearStretch() is reachable from CustomNormalization (checked below)
                    continue
                check.decide(bool(ok), "C20-R2", f"{name}.__call__: `{unparse(node)[:45]}` is non-decreasing (operand provably > 0)",
                             f"positive fields {sorted(pos)}", mod.line(node),
                             fail_detail=f"the operand `{unparse(operand) if operand is not None else '?'}` is not provably positive from the __post_init__ guards "
                                         f"({sorted(pos) or 'none'}): the stretch may decrease or divide by zero")
        # parameters are read from dataclass fields at call time
        used = {n.attr for n in ast.walk(p.fn) if isinstance(n, ast.Attribute) and dotted(n.value) == "self" and isinstance(n.ctx, ast.Load)}
        hidden = sorted(a for a in used if a not in flds and a not in ("get_limits",))
        check.decide(not hidden or _is_frozen(cls), "C20-R2", f"{name}.__call__ reads only declared (mutable) dataclass fields at call time", f"fields {sorted(flds)}", mod.line(p.fn),
                     fail_detail=f"__call__ uses {hidden}, attributes derived once (e.g. in __post_init__) from fields that stay assignable: after a field is "
                                 f"re-tuned the cached value is stale — the stretch no longer maps 1 to 1 and disagrees with its inverse")
    check.floor("pipeline primitives", n_prims, 30)
    for name in STRETCHES[1:]:
        pos = _positive_guards(classes[name])
        flds = [f for f in _fields(classes[name])]
        check.decide(set(flds) <= pos, "C20-R2", f"{name}: __post_init__ rejects non-positive parameters", f"{sorted(pos)}", mod.line(classes[name]),
                     fail_detail=f"fields {flds} but only {sorted(pos)} are guarded by `<= 0 → raise`")
    init = next(f for f in cn_cls.body if isinstance(f, ast.FunctionDef) and f.name == "__init__")
    lin = [c for c in calls_in(init) if call_name(c) == "LinearStretch"]
    check.decide(all(not c.args and not c.keywords for c in lin) and bool(lin), "C20-R2", "CustomNormalization only builds the default (identity) LinearStretch", "",
                 mod.line(init), fail_detail="LinearStretch is constructed with a user slope, which has no sign guard")

    # ---- R3 end points --------------------------------------------------------------------------------------
    for name in STRETCHES:
        p = pipes[name]
        for x0, want in ((Rat.const(0), Rat.const(0)), (Rat.const(1), Rat.const(1))):
            sym = Sym()
            fields = {f: Rat.sym(f) for f in _fields(classes[name])}
            if name == "LinearStretch":
                # no sign/range guard on (slope, intercept): only the default instance is reachable from
                # CustomNormalization (checked under R2), so the end points are claimed for the defaults
                fields = {f: _const_expr(sym, d, {}) for f, d in _fields(classes[name]).items()}
            try:
                v = _run_pipeline(sym, p, x0, fields)
            except AnalysisError as exc:
                check.error(f"C20-R3 {name}: {exc}")
                continue
            ok = v.equals(want)
            check.decide(ok, "C20-R3", f"{name}: maps {x0.n} to {want.n}", str(v) if not ok else "", mod.line(p.fn),
                         fail_detail=f"the stretch maps {x0.n} to {v} (atoms {sym.atoms})")
    # interval affine part
    sym = Sym()
    lim = next((n for n in ast.walk(bcall) if isinstance(n, ast.Assign) and isinstance(n.targets[0], ast.Tuple) and isinstance(n.value, ast.Call)
                and (call_name(n.value) or "").endswith("get_limits")), None)
    if lim is None or len(lim.targets[0].elts) != 2:
        raise AnalysisError("BaseInterval.__call__: (vmin, vmax) = self.get_limits(values) not found")
    lo_name, hi_name = [e.id for e in lim.targets[0].elts]
    for x0, want, label in ((Rat.sym("vmin"), Rat.const(0), "vmin→0"), (Rat.sym("vmax"), Rat.const(1), "vmax→1")):
        try:
            v = _run_pipeline(sym, bp, x0, {lo_name: Rat.sym("vmin"), hi_name: Rat.sym("vmax")}, local_names=True)
        except AnalysisError as exc:
            check.error(f"C20-R3 BaseInterval: {exc}")
            continue
        check.decide(v.equals(want), "C20-R3", f"BaseInterval: affine part maps {label}", str(v), mod.line(bcall),
                     fail_detail=f"{label} fails: got {v}")

    # ---- R4 inverse pairing -----------------------------------------------------------------------------------
    for name in STRETCHES:
        cls = classes[name]
        inv = next((f for f in cls.body if isinstance(f, ast.FunctionDef) and f.name == "inverse"), None)
        if inv is None:
            raise AnalysisError(f"{name}.inverse not found")
        r = [n.value for n in ast.walk(inv) if isinstance(n, ast.Return)]
        if len(r) != 1 or not isinstance(r[0], ast.Call) or call_name(r[0]) not in STRETCHES:
            raise AnalysisError(f"{name}.inverse: constructor call not understood")
        iname = call_name(r[0])
        sym = Sym()
        fields = {f: Rat.sym(f) for f in _fields(cls)}
        x = Rat.sym("x")
        try:
            y = _run_pipeline(sym, pipes[name], x, fields)
            _probe = _run_pipeline(Sym(), pipes[iname], Rat.sym("x"), {f: Rat.sym(f) for f in _fields(classes[iname])})
        except AnalysisError as exc:
            check.error(f"C20-R4 {name}: {exc}")
            continue
        ifields_names = list(_fields(classes[iname]))
        ivals = {}
        for i, a in enumerate(r[0].args):
            ivals[ifields_names[i]] = _const_expr(sym, a, fields)
        for k in r[0].keywords:
            ivals[k.arg] = _const_expr(sym, k.value, fields)
        for f, dflt in _fields(classes[iname]).items():
            if f not in ivals:
                ivals[f] = _const_expr(sym, dflt, {})
        back = _run_pipeline(sym, pipes[iname], y, ivals)
        ok = back.equals(x)
        check.decide(ok, "C20-R4", f"{name} ∘ declared inverse ({iname}) is the identity on [0, 1]", "" if ok else str(back), mod.line(inv),
                     fail_detail=f"inverse(stretch(x)) reduces to {back}, not x (atoms {sym.atoms})")

    # ---- R5 data-derived limits use finite values only ------------------------------------------------------------
    n_red = 0
    for name in INTERVALS:
        cls = classes[name]
        gl = next((f for f in cls.body if isinstance(f, ast.FunctionDef) and f.name == "get_limits"), None)
        if gl is None:
            raise AnalysisError(f"{name}.get_limits not found")
        filtered = [n for n in ast.walk(gl) if isinstance(n, ast.Assign) and dotted(n.targets[0]) == "values" and unparse(n.value) == "values[np.isfinite(values)]"]
        for c in calls_in(gl):
            cn = call_name(c) or ""
            if cn in ("np.min", "np.max", "np.quantile", "np.percentile", "np.nanmin", "np.nanmax", "np.nanquantile", "np.amin", "np.amax", "np.ptp", "np.median") \
                    or (isinstance(c.func, ast.Attribute) and c.func.attr in ("min", "max") and unparse(c.func.value) == "values"):
                n_red += 1
                # (a nan-aware reducer AFTER the finite filter is merely redundant: the filter already removed NaN and ±inf)
                ok = bool(filtered) and all(f.lineno < c.lineno for f in filtered) and unparse(c.args[0] if c.args else c.func.value) == "values"
                check.decide(ok, "C20-R5", f"{name}.get_limits: `{cn}` is taken over the finite values only", "", mod.line(c),
                             definite=cn.startswith("np.nan") and not filtered,      # a nan-aware reducer with no finite filter anywhere: ±inf provably reaches it
                             fail_detail=f"`{unparse(c)[:50]}` sees non-finite entries (no preceding `values = values[np.isfinite(values)]`; nan-aware reducers "
                                         f"still see ±inf): one inf pixel makes the limits infinite and every finite value NaN")
    check.floor("data-derived limit reductions", n_red, 5)
    sl = next(f for f in cn_cls.body if isinstance(f, ast.FunctionDef) and f.name == "_set_limits")
    # freezing: after _set_limits the interval is a ManualInterval(lower, upper) of the limits that get_limits(data) returned — directly, or through
    # self.vmin / self.vmax that were assigned from them — in this order (or the constants (0, 1) for boolean data).  Since BaseInterval converts the limits
    # to float itself (D27), it no longer matters whether the raw NumPy scalars or the sanitised attributes are handed over.
    from ..core.repo import TupleItem

    def _limit_role(e_):
        """'lo' / 'hi' / ('const', v) / None for an argument of ManualInterval"""
        if isinstance(e_, ast.Constant) and isinstance(e_.value, (int, float)):
            return ("const", float(e_.value))
        if isinstance(e_, ast.Attribute) and dotted(e_) in ("self.vmin", "self.vmax"):
            # self.vmin / self.vmax: what was last assigned to them in this method
            roles = set()
            for n in ast.walk(sl):
                if isinstance(n, ast.Assign):
                    tg = n.targets[0].elts if isinstance(n.targets[0], ast.Tuple) else [n.targets[0]]
                    if isinstance(n.value, ast.Tuple) and len(n.value.elts) == len(tg):
                        pairs = list(zip(tg, n.value.elts))
                    elif isinstance(n.targets[0], ast.Tuple) and isinstance(n.value, ast.Call) and isinstance(n.value.func, ast.Attribute) and n.value.func.attr == "get_limits":
                        pairs = [(t_, ("lo", "hi")[k]) for k, t_ in enumerate(tg[:2])]
                    else:
                        pairs = [(t_, n.value) for t_ in tg] if len(tg) == 1 else []
                    for t_, v_ in pairs:
                        if dotted(t_) == dotted(e_):
                            roles.add(v_ if isinstance(v_, (str, tuple)) else _limit_role(v_))
            roles.discard(None)
            kinds = {r if isinstance(r, str) else r[0] for r in roles}
            if kinds <= {"lo", "const"} and "lo" in kinds:
                return "lo"
            if kinds <= {"hi", "const"} and "hi" in kinds:
                return "hi"
            return next(iter(roles)) if len(roles) == 1 else None
        if isinstance(e_, ast.Name):
            roles = set()
            for d_ in definitions(sl, e_.id):
                if isinstance(d_, TupleItem) and isinstance(d_.value, ast.Call) and isinstance(d_.value.func, ast.Attribute) and d_.value.func.attr == "get_limits":
                    roles.add(("lo", "hi")[d_.index] if d_.index in (0, 1) else None)
                elif isinstance(d_, ast.AST):
                    roles.add(_limit_role(d_))
                else:
                    roles.add(None)
            if None in roles:
                return None
            kinds = {r if isinstance(r, str) else r[0] for r in roles}
            if kinds <= {"lo", "const"} and "lo" in kinds:
                return "lo"
            if kinds <= {"hi", "const"} and "hi" in kinds:
                return "hi"
            return next(iter(roles)) if len(roles) == 1 else None
        return None
    n_frz = 0
    stores_iv = [n for n in ast.walk(sl) if isinstance(n, ast.Assign) and dotted(n.targets[0]) == "self.interval"]
    for n in stores_iv:
        c = n.value
        if not (isinstance(c, ast.Call) and call_name(c) == "ManualInterval"):
            check.violated("C20-R3", "CustomNormalization._set_limits freezes the limits in a ManualInterval (vmin→0, vmax→1 for later calls)",
                           f"`{unparse(n)[:60]}` installs something else than a ManualInterval", mod.line(n))
            continue
        args = list(c.args) + [k.value for k in c.keywords if k.arg in ("vmin", "vmax")]
        if len(args) != 2:
            raise AnalysisError(f"_set_limits: `{unparse(c)[:60]}` does not pass two limits")
        if c.keywords:
            kw = {k.arg: k.value for k in c.keywords}
            args = [kw.get("vmin", c.args[0] if c.args else None), kw.get("vmax", c.args[1] if len(c.args) > 1 else None)]
        r0, r1 = _limit_role(args[0]), _limit_role(args[1])
        if r0 is None or r1 is None:
            raise AnalysisError(f"_set_limits: the arguments of `{unparse(c)[:60]}` were not traced to get_limits() / constants")
        n_frz += 1
        ok = (r0, r1) == ("lo", "hi") or (isinstance(r0, tuple) and isinstance(r1, tuple) and r0[1] < r1[1])
        check.decide(ok, "C20-R3", "CustomNormalization._set_limits freezes the limits in a ManualInterval (vmin→0, vmax→1 for later calls)", f"{unparse(c)[:50]} = ({r0}, {r1})",
                     mod.line(c), definite=True, fail_detail=f"`{unparse(c)[:60]}` receives ({r0}, {r1}): the frozen interval is not (lower limit, upper limit) of get_limits(data)")
    lim_calls = [c for c in calls_in(sl) if isinstance(c.func, ast.Attribute) and c.func.attr == "get_limits"]
    check.decide(bool(lim_calls) and all(c.args and unparse(c.args[0]) == "data" for c in lim_calls), "C20-R3", "CustomNormalization._set_limits takes the limits from get_limits(data)", "",
                 mod.line(sl), fail_detail="get_limits is not evaluated on the data handed to _set_limits")
    check.floor("_set_limits: frozen intervals", n_frz, 1)
    # every normal path through _set_limits installs the frozen interval (CFG must-pass-through).  A path that keeps the old interval is only
    # harmless when its guard establishes that BOTH limits of that interval are already fixed; a bare type test does not (ManualInterval() with a
    # missing limit re-derives it from whatever array it is later applied to).
    from ..core.cfg import assigned_on_every_path
    every, via_, _cfg = assigned_on_every_path(sl, lambda t: dotted(t) == "self.interval")
    key_ = "CustomNormalization._set_limits: every path installs the frozen ManualInterval (the limits seen by later calls are the ones reported as vmin/vmax)"
    if every:
        check.holds("C20-R3", key_, f"{len(via_)} store(s) cover every normal exit", mod.line(sl))
    else:
        guards_ = [n for n in ast.walk(sl) if isinstance(n, ast.If) and any(isinstance(x, ast.Assign) and dotted(x.targets[0]) == "self.interval" for b in (n.body, n.orelse) for s_ in b for x in ast.walk(s_))]
        mentions_limits = any({"vmin", "vmax"} & attrs_in(g.test) or any(isinstance(x, ast.Constant) and x.value is None for x in ast.walk(g.test)) for g in guards_)
        if not guards_ or mentions_limits:
            raise AnalysisError("_set_limits: a path leaves the interval as it was under a condition on its limits — not decided")
        check.violated("C20-R3", key_, f"under `{unparse(guards_[0].test)[:70]}` the interval is left as it was: a ManualInterval with a missing limit stays unfrozen, so the next array "
                       f"it is applied to re-derives that limit — vmin/vmax no longer map to 0/1 and equal values map differently from call to call", mod.line(guards_[0]), definite=True)

    # ---- R4c state derived at construction vs later writers of its sources (coupled) ------------------------------------------------------------
    # A non-frozen dataclass may pre-compute a private value in __post_init__ from its fields and read it in its methods: sound while nobody assigns those fields on an
    # existing instance.  Together with a writer elsewhere in the module (`<obj>.vmin = …` on an instance of that class) the methods keep using the stale value.
    for cname_, cls_ in classes.items():
        if _is_frozen(cls_):
            continue
        pi_ = next((f_ for f_ in cls_.body if isinstance(f_, ast.FunctionDef) and f_.name == "__post_init__"), None)
        if pi_ is None:
            continue
        fields_ = set(_fields(cls_))
        derived = {}
        for n_ in ast.walk(pi_):
            if isinstance(n_, ast.Assign):
                for t_ in n_.targets:
                    if isinstance(t_, ast.Attribute) and dotted(t_.value) == "self" and t_.attr not in fields_:
                        srcs = {x.attr for x in ast.walk(n_.value) if isinstance(x, ast.Attribute) and dotted(x.value) == "self" and x.attr in fields_}
                        seen_l = {x.id for x in ast.walk(n_.value) if isinstance(x, ast.Name)}
                        for nm_ in seen_l:
                            for d_ in definitions(pi_, nm_):
                                if isinstance(d_, ast.AST):
                                    srcs |= {x.attr for x in ast.walk(d_) if isinstance(x, ast.Attribute) and dotted(x.value) == "self" and x.attr in fields_}
                        if srcs:
                            derived[t_.attr] = srcs
        read_elsewhere = {a_ for a_ in derived for f_ in cls_.body if isinstance(f_, ast.FunctionDef) and f_.name != "__post_init__"
                          for x in ast.walk(f_) if isinstance(x, ast.Attribute) and dotted(x.value) == "self" and x.attr == a_ and isinstance(x.ctx, ast.Load)}
        for a_ in sorted(read_elsewhere):
            writers_ = []
            for n_ in ast.walk(mod.tree):
                if isinstance(n_, ast.Assign):
                    tg_ = [e_ for t_ in n_.targets for e_ in (t_.elts if isinstance(t_, (ast.Tuple, ast.List)) else [t_])]
                    for t_ in tg_:
                        if isinstance(t_, ast.Attribute) and t_.attr in derived[a_] and dotted(t_.value) not in (None, "self") and isinstance(t_.value, ast.Attribute):
                            # `<something>.interval.vmin = …`: a field of a held instance is assigned — is that instance tested to be of this class nearby?
                            fn_ = next((f_ for f_ in ast.walk(mod.tree) if isinstance(f_, ast.FunctionDef) and any(x is n_ for x in ast.walk(f_))), None)
                            if fn_ is not None and any(isinstance(c_, ast.Call) and call_name(c_) == "isinstance" and len(c_.args) == 2 and cname_ in unparse(c_.args[1]) for c_ in ast.walk(fn_)):
                                writers_.append((fn_.name, n_))
            key_ = f"{cname_}: `{a_}` (computed once in __post_init__ from {sorted(derived[a_])}) is never stale — no code assigns those fields on an existing instance"
            if writers_:
                check.violated("C20-R4", key_, f"{writers_[0][0]} assigns `{unparse(writers_[0][1].targets[0])[:50]}` on an existing {cname_} while its methods read the value derived at "
                               f"construction: after the limits are adjusted the interval declares the new limits but maps with the old ones — vmin/vmax no longer go to 0/1",
                               mod.line(writers_[0][1]), definite=True)
            else:
                check.holds("C20-R4", key_, "", mod.line(pi_))

    # ---- R4b derived accessors of the (mutable) stretch/interval dataclasses are recomputed on every access ----------------------------------
    n_acc = 0
    for cname_, cls_ in classes.items():
        if _is_frozen(cls_):
            continue
        for f_ in [x for x in cls_.body if isinstance(x, ast.FunctionDef)]:
            decos = [dotted(d.func if isinstance(d, ast.Call) else d) or "" for d in f_.decorator_list]
            if not decos:
                continue
            n_acc += 1
            cached = [d for d in decos if d.split(".")[-1] in ("cached_property", "lru_cache", "cache")]
            check.decide(not cached, "C20-R4", f"{cname_}.{f_.name}: not cached (the dataclass fields stay assignable)", str(decos), mod.line(f_),
                         fail_detail=f"{cname_}.{f_.name} is decorated with {cached} on a non-frozen dataclass: after a parameter (power, a, …) is re-tuned the cached result still carries the "
                                     f"old parameter — stretch(stretch.inverse(y)) ≠ y")
    check.floor("decorated accessors of stretch/interval classes", n_acc, 6)

    # ---- R7 optional limits / parameters are tested with `is None`: 0 is a legal limit --------------------------------------------------------
    from ..domains.optnum import optional_numeric_names, truthiness_uses
    n_opt = 0
    for cname_, cls_ in classes.items():
        for f_ in [x for x in cls_.body if isinstance(x, ast.FunctionDef)]:
            ps_, fs_ = optional_numeric_names(cls_, f_)
            used_ = {x.attr for x in ast.walk(f_) if isinstance(x, ast.Attribute) and isinstance(x.value, ast.Name) and x.value.id == "self" and x.attr in fs_}
            if not ps_ and not used_:
                continue
            n_opt += len(ps_) + len(used_)
            bad_ = truthiness_uses(cls_, f_)
            check.decide(not bad_, "C20-R7", f"{cname_}.{f_.name}: optional numeric limits/parameters ({', '.join(sorted(ps_ | {'self.' + a for a in used_}))}) are tested with `is None`", "",
                         mod.line(bad_[0][0]) if bad_ else mod.line(f_), definite=True,
                         fail_detail="; ".join(f"`{unparse(n_)[:60]}` uses {nm} as a truth value" for n_, nm in bad_[:3]) + ": a limit of exactly 0 is treated as 'not given' and replaced by "
                                     "a data extreme — the requested lower/upper limit is not sent to 0/1")
    check.floor("optional numeric limits examined", n_opt, 4)

    # ---- R6 configuration wiring: every CustomNormalization built from a resolved configuration receives field K as keyword K ----------------
    VIS = "quantem.core.visualization.visualization"
    vmod = repo.module(VIS)
    cn_params = [a.arg for f in cn_cls.body if isinstance(f, ast.FunctionDef) and f.name == "__init__" for a in f.args.args[1:] + f.args.kwonlyargs]
    if not cn_params:
        raise AnalysisError("CustomNormalization.__init__ parameters not found")
    sites = [c for c in ast.walk(vmod.tree) if isinstance(c, ast.Call) and (call_name(c) or "").split(".")[-1] == "CustomNormalization" and c.keywords]
    check.floor("CustomNormalization construction sites with keywords", len(sites), 2)
    for c in sites:
        srcs = {unparse(k.value.value) for k in c.keywords if isinstance(k.value, ast.Attribute)}
        if len(srcs) != 1:
            continue  # not built field-by-field from one configuration object
        cfg = next(iter(srcs))
        wrong = [f"{k.arg}={unparse(k.value)}" for k in c.keywords if k.arg is not None and isinstance(k.value, ast.Attribute) and k.value.attr != k.arg]
        unknown = [k.arg for k in c.keywords if k.arg is not None and k.arg not in cn_params]
        encl = next((f.name for f in ast.walk(vmod.tree) if isinstance(f, ast.FunctionDef) and f.lineno <= c.lineno <= (f.end_lineno or f.lineno)), "?")
        check.decide(not wrong and not unknown, "C20-R6", f"{encl}: CustomNormalization(…) receives every field of `{cfg}` under its own keyword", f"{len(c.keywords)} keywords",
                     vmod.line(c), fail_detail=f"{wrong or unknown}: the normalisation is built with another field's value — e.g. a manual interval whose upper limit is the lower limit "
                                               f"no longer sends the requested limits to 0 and 1")


def _run_pipeline(sym: Sym, p: Pipeline, x: Rat, fields: dict[str, Rat], local_names: bool = False) -> Rat:
    v = x
    for prim, operand, node, cond in p.ops:
        f = prim.split(".")[1]
        if f == "clip":
            continue  # identity on [0, 1]
        if f in ("log", "exp", "arcsinh", "sinh", "log1p", "expm1"):
            v = sym.apply(f, v)
            continue
        if operand is None:
            raise AnalysisError(f"primitive {prim} without operand")
        if local_names:
            env_ = {k: val for k, val in fields.items()}
            for nm_, ex_ in p.scalars.items():  # scalar intermediates, in definition order
                try:
                    env_[nm_] = from_ast(ex_, env_)
                except NotArithmetic:
                    pass
            c = from_ast(operand, env_)
        else:
            c = _const_expr(sym, operand, fields)
        if f == "multiply":
            v = v * c
        elif f in ("true_divide", "divide"):
            v = v / c
        elif f == "add":
            v = v + c
        elif f == "subtract":
            v = v - c
        elif f == "power":
            v = sym.apply("power", v, c)
        else:
            raise AnalysisError(f"no symbolic rule for {prim}")
    return v


MANIFEST = {
    "text": "Decides the structural clauses for every parameter value and input: each stretch __call__ either returns its argument "
            "under an identity guard or acts only through out= on np.array(values, copy=copy) (the normalisation discards the "
            "return value), starts with the [0,1] clip, uses only NaN-propagating primitives that are monotone under the signs "
            "the __post_init__ guards establish, and reads its parameters from the dataclass fields at call time; the interval "
            "ends with np.clip; symbolic evaluation of each pipeline (with log/exp/sinh/asinh/power rewrites) gives 0→0, 1→1, "
            "vmin→0, vmax→1 and stretch∘declared-inverse = identity with the constructor argument map; data-derived limits are "
            "computed from finite values only; the result is masked_invalid of the pipeline.",
    "note": "Not decided: rounding at the end points, behaviour when vmax = vmin (the property requires two distinct finite "
            "values), matplotlib's handling of masked arrays. The symbolic evaluator knows exactly the primitives in its table; "
            "an unknown primitive is an analysis error.",
    "technique": "pipeline extraction + symbolic evaluation with inverse-function rewrites + sign/monotonicity table (AST)",
}
MANIFEST["text"] += ' Also: integer data is converted to floating point before the first arithmetic step and nothing is written before the working copy exists; log1p/expm1 are primitives of the symbolic evaluator; every CustomNormalization built field-by-field from a resolved configuration receives field K under keyword K (R6).'
MANIFEST["text"] += " R1 also: every limit-to-limit arithmetic step of BaseInterval (vmax − vmin in __call__ and inverse) runs on limits converted to float first (found D27). R3 is now semantic: the frozen ManualInterval receives (lower, upper) of get_limits(data), directly or through self.vmin/self.vmax, in this order."
MANIFEST["text"] += ' R3 also: every normal path of _set_limits installs the frozen ManualInterval (CFG must-pass-through; a path kept under a bare type test is a violation, under a test on the limits not decided).'
MANIFEST["text"] += " R2 treats the interval's final clip and the stretch's initial clip as coupled defences."
MANIFEST["text"] += ' R4c (coupled): a value derived in __post_init__ of a non-frozen dataclass is never stale (no code assigns its source fields on an existing instance).'
