"""C05 — checkpoint/resume equivalence (narrow): dispatch order, reconnect on move, metadata
keys, persisted state, clone independence (E2, E3, E5)."""
from __future__ import annotations

import ast

from ..core.cfg import CFG
from ..core.repo import (AnalysisError, Repo, call_name, calls_in, definitions, dotted, func_params, is_const,
                         kwarg, names_in, unparse, walk_no_nested_defs)
from ..domains.codec import WriterModel
from .c01 import KINDS, eval_pred

PT = "quantem.diffractive_imaging.ptychography"
PB = "quantem.diffractive_imaging.ptychography_base"
OM = "quantem.core.ml.optimizer_mixin"
MODELS = [("quantem.diffractive_imaging.object_models", "ObjectBase"), ("quantem.diffractive_imaging.probe_models", "ProbeBase"),
          ("quantem.diffractive_imaging.dataset_models", "PtychographyDatasetBase")]

EXPLANATION = (
    "necessary structural conditions of resume equivalence: model classes are nn.Module ∧ "
    "AutoSerialize and are first matched by the whole-module arm (optimizer moments stay bound to the "
    "parameters in one pickled graph); every to() override of an OptimizerMixin class reaches "
    "reconnect_optimizer_to_parameters, which captures the LIVE param-group settings and state before "
    "clearing and restores them afterwards; metadata keys written by save = keys read by from_file and "
    "learned positions are restored after the last reset; history attributes are neither skipped nor "
    "unsupported; clone's fallback round-trips the full object and shares no member with the original"
)


def run(check, repo: Repo) -> None:
    tmod = repo.module(PT)
    _, save = repo.func(f"{PT}:Ptychography.save")
    _, ff = repo.func(f"{PT}:Ptychography.from_file")
    _, clone = repo.func(f"{PT}:Ptychography.clone")
    _, rec_iter = repo.func(f"{PT}:Ptychography._record_iter")
    bmod, reset = repo.func(f"{PB}:PtychographyBase.reset_recon")
    _, pto = repo.func(f"{PB}:PtychographyBase.to")
    omod, recon = repo.func(f"{OM}:OptimizerMixin.reconnect_optimizer_to_parameters")
    check.analysed(f"{PT}:Ptychography.save", f"{PT}:Ptychography.from_file", f"{PT}:Ptychography.clone", f"{PT}:Ptychography._record_iter",
                   f"{PB}:PtychographyBase.reset_recon", f"{PB}:PtychographyBase.to", f"{OM}:OptimizerMixin.reconnect_optimizer_to_parameters")

    # ---- R1 whole-module dispatch precedes the AutoSerialize arm ------------------------------------------
    W = WriterModel(repo)
    facts = KINDS["nn.Module ∧ AutoSerialize (object/probe/dataset models)"]
    chosen = None
    for arm in W.arms:
        if arm.test is None:
            chosen = arm
            break
        r = eval_pred(arm.test, W.p_value, facts)
        if r is None:
            raise AnalysisError(f"C05-R1: predicate `{unparse(arm.test)}` not evaluable")
        if r:
            chosen = arm
            break
    check.decide(chosen is not None and chosen.role == "marker:_torch_whole_module", "C05-R1",
                 "serializer: a model that is both nn.Module and AutoSerialize is first matched by the whole-module arm",
                 f"arm {chosen.index} role {chosen.role}" if chosen else "", chosen.where if chosen else "",
                 fail_detail=f"such a model is first matched by arm {chosen.index} ({chosen.role}): it is written attribute by attribute, the optimizer is "
                             f"pickled separately from the parameters and its moments are no longer bound to them after reload")
    for m, cname in MODELS:
        cm, cc = repo.cls(f"{m}:{cname}")
        ext = repo.external_base_names(cm, cc)
        internal = {c.name for _, c in repo.mro(cm, cc)}
        is_module = any(e.endswith("nn.Module") or e.endswith("nn.modules.module.Module") for e in ext)
        ok = is_module and "AutoSerialize" in internal and "OptimizerMixin" in internal
        check.decide(ok, "C05-R1", f"{cname} is nn.Module ∧ AutoSerialize ∧ OptimizerMixin (its optimizer/scheduler live inside the pickled module graph)",
                     f"external bases {sorted(ext)}", cm.line(cc),
                     fail_detail=f"{cname}: bases are {sorted(internal)} + {sorted(ext)}")
        check.analysed(f"{m}:{cname}")

    # ---- R2 reconnect on move -----------------------------------------------------------------------------------
    _, mix = repo.cls(f"{OM}:OptimizerMixin")
    mixmod = repo.module(OM)
    n_to = 0
    for cm, cc in repo.subclasses(mixmod, mix):
        to = next((d for d in cc.body if isinstance(d, ast.FunctionDef) and d.name == "to"), None)
        if to is None:
            continue
        n_to += 1
        ok, why = _reaches_reconnect(repo, cm, cc, to, 0)
        check.decide(ok, "C05-R2", f"{cc.name}.to reaches reconnect_optimizer_to_parameters() when the device changes", why, cm.line(to),
                     fail_detail=f"{why}: after a device move (save() moves to CPU and back, from_file(device=…), reconstruct(device=…)) the optimizer still "
                                 f"references the old tensors")
    check.floor("to() overrides of OptimizerMixin classes", n_to, 4)
    pt = unparse(pto)
    ok = all(f"self.{m}.to(dev)" in pt for m in ("obj_model", "probe_model", "dset"))
    check.decide(ok, "C05-R2", "PtychographyBase.to moves object, probe and dataset models", "", bmod.line(pto),
                 fail_detail="PtychographyBase.to does not move all three models")
    # reconnect itself: live settings and state are captured before clearing and restored afterwards
    rcfg = CFG(recon)

    def node_of(pred):
        return [n.id for n in rcfg.nodes if n.kind == "stmt" and pred(unparse(n.stmt))]
    cap_state = node_of(lambda t: t.startswith("old_state = self._optimizer.state.copy()"))
    cap_group = node_of(lambda t: "= self._optimizer.param_groups[0].copy()" in t)
    clear = node_of(lambda t: t == "self._optimizer.param_groups.clear()")
    add = node_of(lambda t: t.startswith("self._optimizer.add_param_group("))
    restore = node_of(lambda t: t.startswith("self._optimizer.param_groups[0].update("))
    st_upd = node_of(lambda t: t == "self._optimizer.state.update(new_state)")
    ok = bool(cap_state and cap_group and clear and add and restore and st_upd) and \
        rcfg.dominates(cap_group[0], clear[0]) and rcfg.dominates(cap_state[0], clear[0]) and rcfg.dominates(clear[0], add[0]) \
        and rcfg.dominates(add[0], restore[0]) and rcfg.exit not in rcfg.reachable_from(add[0], avoid=restore)
    check.decide(ok, "C05-R2", "reconnect: the LIVE param-group settings are captured before clear() and restored after add_param_group on every path",
                 "", omod.line(recon),
                 fail_detail="the live param group (current learning rate after scheduler steps, betas …) is not captured before param_groups.clear() and restored "
                             "afterwards: every re-binding resets a decayed learning rate")
    defaults_used = [unparse(n)[:60] for n in ast.walk(recon) if isinstance(n, ast.Attribute) and n.attr == "defaults"]
    check.decide(not defaults_used, "C05-R2", "reconnect: hyper-parameters are not re-read from optimizer.defaults (constructor values)", "", omod.line(recon),
                 fail_detail=f"{defaults_used}: the new param group takes the constructor defaults instead of the live settings")
    if restore:
        rt = unparse(rcfg.nodes[restore[0]].stmt)
        gname = unparse(rcfg.nodes[cap_group[0]].stmt).split(" = ")[0] if cap_group else "?"
        ok = f"for k, v in {gname}.items() if k != 'params'" in rt
        check.decide(ok, "C05-R2", "reconnect: everything except 'params' is restored from the captured group", "", omod.line(rcfg.nodes[restore[0]].stmt),
                     fail_detail=f"restore statement `{rt[:80]}` does not copy all non-'params' entries of the captured group")
    ok = bool(st_upd) and "new_state[new_param][key] = value.to(device)" in unparse(recon) and "self._optimizer.state.clear()" in unparse(recon)
    check.decide(ok, "C05-R2", "reconnect: optimizer state (moments) is re-keyed to the new parameters and moved to their device", "", omod.line(recon),
                 fail_detail="optimizer state is not re-mapped onto the new parameter tensors")
    from ..domains.alias import shared_mutable_values
    sh = shared_mutable_values(recon)
    check.decide(not sh, "C05-R2", "reconnect: every parameter receives its own state dict (no shared mutable value)", "", omod.line(sh[0][0]) if sh else omod.line(recon), definite=True,
                 fail_detail="; ".join(d for _, d in sh) + ": with two or more state-carrying tensors in one optimizer (e.g. Adam on descan shifts + scan positions) the moments and the "
                             "step counter of all parameters alias one dict — the resumed optimisation diverges from the uninterrupted one")
    ok = "self._scheduler.optimizer = self._optimizer" in unparse(recon)
    check.decide(ok, "C05-R2", "reconnect: the scheduler is re-bound to the optimizer", "", omod.line(recon), fail_detail="scheduler not re-bound")

    # ---- R3 metadata key agreement -----------------------------------------------------------------------------------
    md = next((n.value for n in ast.walk(save) if isinstance(n, ast.Assign) and dotted(n.targets[0]) == "self._dataset_metadata"), None)
    if not isinstance(md, ast.Dict):
        raise AnalysisError("Ptychography.save: _dataset_metadata dict not found")
    written = {k.value for k in md.keys if isinstance(k, ast.Constant)}
    read = set()
    # the reader's handle(s) on the saved dict, by role: `<local> = <obj>._dataset_metadata` (or the attribute itself)
    mdl = {n.targets[0].id for n in ast.walk(ff) if isinstance(n, ast.Assign) and isinstance(n.targets[0], ast.Name)
           and isinstance(n.value, ast.Attribute) and n.value.attr == "_dataset_metadata"}
    if not mdl:
        raise AnalysisError("Ptychography.from_file: no local bound to `._dataset_metadata`")

    def is_md(e):
        return (isinstance(e, ast.Name) and e.id in mdl) or (isinstance(e, ast.Attribute) and e.attr == "_dataset_metadata")
    for n in ast.walk(ff):
        if isinstance(n, ast.Call) and isinstance(n.func, ast.Attribute) and n.func.attr == "get" and is_md(n.func.value) and n.args and isinstance(n.args[0], ast.Constant):
            read.add(n.args[0].value)
        if isinstance(n, ast.Subscript) and is_md(n.value) and isinstance(n.slice, ast.Constant):
            read.add(n.slice.value)
        if isinstance(n, ast.Compare) and isinstance(n.left, ast.Constant) and isinstance(n.ops[0], ast.In) and is_md(n.comparators[0]):
            read.add(n.left.value)
    check.floor("dataset metadata keys", len(written), 4)
    check.decide(written == read, "C05-R3", "dataset metadata: keys written by save = keys read by from_file", f"{sorted(written)}", tmod.line(md),
                 fail_detail=f"written {sorted(written)}, read {sorted(read)}: learned state is dropped or never found on reload")
    skip_ext = []
    for c in calls_in(save):
        if isinstance(c.func, ast.Attribute) and c.func.attr in ("extend", "append") and dotted(c.func.value) == "skip":
            skip_ext += [n.value for n in ast.walk(c) if isinstance(n, ast.Constant) and isinstance(n.value, str)]
    check.decide("_dataset_metadata" not in skip_ext, "C05-R3", "save: the temporary metadata attribute is not skipped", str(skip_ext), tmod.line(save),
                 fail_detail="_dataset_metadata is in the skip list: it is never written")
    vals = {k.value: unparse(v) for k, v in zip(md.keys, md.values) if isinstance(k, ast.Constant)}
    ok = vals.get("learned_scan_positions_px", "").startswith("self.dset.scan_positions_px.data") and vals.get("learned_descan_shifts", "").startswith("self.dset.descan_shifts.data")
    check.decide(ok, "C05-R3", "save: learned scan positions and descan shifts are taken from the live dataset parameters", "", tmod.line(md), fail_detail=str(vals))
    # from_file(dset=…): learned positions are restored after the last reset of the positions
    fcfg = CFG(ff)
    restores = [n.id for n in fcfg.nodes if n.kind == "stmt" and isinstance(n.stmt, ast.Assign) and unparse(n.stmt.targets[0]) == "dset.scan_positions_px.data"]
    resets = [n.id for n in fcfg.nodes if n.kind == "stmt" and any(isinstance(c, ast.Call) and (call_name(c) or "") == "dset._set_initial_scan_positions_px" for c in ast.walk(n.stmt))]
    check.floor("from_file: learned-position restores", len(restores), 1)
    late = [r for r in resets if any(r in fcfg.reachable_from(s) for s in restores)]
    check.decide(not late and bool(resets), "C05-R3", "from_file(dset=…): learned scan positions are restored AFTER the nominal positions are (re)initialised", "",
                 tmod.line(fcfg.nodes[restores[0]].stmt) if restores else tmod.line(ff),
                 fail_detail=f"_set_initial_scan_positions_px at line(s) {[fcfg.nodes[r].lineno for r in late]} runs after the learned positions were restored and "
                             f"overwrites them with the nominal raster", definite=bool(late))        # a reset reachable from a restore: a CFG fact
    dres = [("metadata[" + repr(n.stmt.value.slice.value) + "]") if isinstance(n.stmt.value, ast.Subscript) and is_md(n.stmt.value.value) and isinstance(n.stmt.value.slice, ast.Constant)
            else unparse(n.stmt.value)
            for n in fcfg.nodes if n.kind == "stmt" and isinstance(n.stmt, ast.Assign) and unparse(n.stmt.targets[0]) == "dset.descan_shifts.data"]
    check.decide(dres == ["metadata['learned_descan_shifts']"], "C05-R3", "from_file(dset=…): learned descan shifts are restored", str(dres), tmod.line(ff), fail_detail=str(dres))

    # sibling agreement of the dataset-attaching branches: save() persists the learned positions / descan shifts whenever the raw data is skipped, so EVERY
    # way of obtaining a dataset in from_file — the caller's `dset=` and the automatic reload from `file_path` — must pass the restore before the dataset
    # is attached (must-pass-through; "nothing persisted" = the False side of the metadata / key tests counts as passed)
    attach = [n.id for n in fcfg.nodes if n.kind == "stmt" and isinstance(n.stmt, ast.Assign) and unparse(n.stmt.targets[0]).endswith(".dset") and unparse(n.stmt.value) == "dset"]
    if not attach:
        raise AnalysisError("from_file: `ptycho.dset = dset` not found")
    sources = [(n.id, f"`{unparse(n.stmt)[:50]}`") for n in fcfg.nodes if n.kind == "stmt" and isinstance(n.stmt, ast.Assign) and unparse(n.stmt.targets[0]) == "dset"
               and isinstance(n.stmt.value, ast.Call)]
    for n in fcfg.nodes:
        if n.kind == "branch" and n.polarity and unparse(fcfg.nodes[n.test].expr) == "dset is not None" and any(a in fcfg.reachable_from(n.id) for a in attach) \
                and not any(fcfg.dominates(s_, n.id) for s_, _ in sources):
            sources.append((n.id, "the caller's `dset=` argument"))
    nothing = [n.id for n in fcfg.nodes if n.kind == "branch" and not n.polarity and any(k in unparse(fcfg.nodes[n.test].expr) for k in ("learned_scan_positions_px", "_dataset_metadata"))]
    nothing += [n.id for n in fcfg.nodes if n.kind == "branch" and not n.polarity and isinstance(fcfg.nodes[n.test].expr, ast.Name) and fcfg.nodes[n.test].expr.id in mdl]
    # a `dset is not None` test that merely guards the attach statement is reached FROM the real sources; it is not one itself
    sources = [(sid, lb) for sid, lb in sources if not any(sid in fcfg.reachable_from(o) for o, _ in sources if o != sid)]
    check.floor("from_file: ways of obtaining a dataset", len(sources), 2)
    # three-valued: a call that hands the dataset to a function this analysis does not know (a helper that is not in the recorded tables and could not be inlined)
    # may perform the restore — then nothing is claimed
    from ..core.alpha import pinned_table
    known_fns = {k.split(":")[-1].split(".")[-1] for k in pinned_table() if not k.startswith("__")}
    for c_ in calls_in(ff):
        nm_ = (call_name(c_) or "").split(".")[-1]
        if nm_ and nm_ not in known_fns and nm_.startswith("_") and any(isinstance(a_, ast.Name) and a_.id in ("dset", "ptycho") for a_ in list(c_.args) + [k_.value for k_ in c_.keywords]):
            raise AnalysisError(f"from_file: the dataset is handed to `{call_name(c_)}`, which is not a recorded function — whether it restores the learned state is not decided")
    for n_ in ast.walk(ff):
        if isinstance(n_, ast.Assign) and isinstance(n_.targets[0], ast.Attribute) and n_.targets[0].attr == "data" and not isinstance(n_.targets[0].value, (ast.Attribute, ast.Name)):
            raise AnalysisError(f"from_file: `{unparse(n_)[:60]}` writes the `.data` of a dynamically selected parameter — which learned state it restores is not decided")
    for sid, label in sources:
        # (the restore may come before or after the attach statement — into `dset` or into `ptycho.dset`; what matters is that no normal return is reached without it)
        # from a source the dataset is known to be present: the `dset is None` side of later tests is infeasible (the CFG is path-insensitive) and counts as passed
        infeasible = [n.id for n in fcfg.nodes if n.kind == "branch" and ((not n.polarity and unparse(fcfg.nodes[n.test].expr) == "dset is not None")
                                                                            or (n.polarity and unparse(fcfg.nodes[n.test].expr) == "dset is None"))
                      and n.id in fcfg.reachable_from(sid) and n.id != sid]
        any_restore = [n.id for n in fcfg.nodes if n.kind == "stmt" and isinstance(n.stmt, ast.Assign) and unparse(n.stmt.targets[0]).endswith("scan_positions_px.data")]
        ok = fcfg.all_paths_pass_through(sid, fcfg.exit, set(any_restore) | set(nothing) | set(infeasible))
        check.decide(ok, "C05-R3", f"from_file: a dataset obtained through {label} receives the persisted learned scan positions on every path to the return", "", tmod.line(fcfg.nodes[sid].stmt)
                     if fcfg.nodes[sid].stmt is not None else tmod.line(ff), definite=True,
                     fail_detail=f"a path from {label} reaches `ptycho.dset = dset` without `dset.scan_positions_px.data = metadata['learned_scan_positions_px']`: a reconstruction "
                                 f"saved without raw data comes back on the nominal raster — the learned positions (and descan shifts) that save() persisted are dropped, and the "
                                 f"continued run diverges from the uninterrupted one")

    # ---- R4 persisted state completeness -----------------------------------------------------------------------------------
    hist = {}
    for n in ast.walk(reset):
        if isinstance(n, ast.Assign) and isinstance(n.targets[0], ast.Attribute) and dotted(n.targets[0].value) == "self" and n.targets[0].attr.startswith(("_iter", "_snap")):
            hist[n.targets[0].attr] = n.value
    check.floor("history attributes", len(hist), 4)
    for a, v in hist.items():
        ok = a not in skip_ext and isinstance(v, (ast.List, ast.Dict))
        check.decide(ok, "C05-R4", f"history attribute {a} is persisted (not skipped; list/dict kind the serializer supports)", unparse(v), bmod.line(v),
                     fail_detail=f"{a}: skipped={a in skip_ext}, initial value `{unparse(v)}`")
    # ---- R5 (advisory) save brackets ----------------------------------------------------------------------------------------------
    tries = [n for n in ast.walk(save) if isinstance(n, ast.Try)]
    if not tries:
        check.advisory("C05-R5", "Ptychography.save: device/metadata restoration is not in try/finally",
                       "a failing save leaves the object on CPU with the temporary _dataset_metadata attribute (not a clause of C05 as stated)", tmod.line(save))
    st = unparse(save)
    devs = [n.targets[0].id for n in ast.walk(save) if isinstance(n, ast.Assign) and isinstance(n.targets[0], ast.Name) and unparse(n.value) == "self.device"]
    back = f"self.to({devs[0]})" if devs else "self.to(<saved device>)"
    ok = bool(devs) and "self.to('cpu')" in st and back in st and st.index("self.to('cpu')") < st.index("super().save(") < st.index(back)
    check.decide(ok, "C05-R4", "save: the object is moved to CPU for serialisation and back to its device afterwards", "", tmod.line(save),
                 fail_detail="save does not bracket super().save with to('cpu') … to(current_device)")

    # ---- R6 history bookkeeping and clone ----------------------------------------------------------------------------------------------
    rt = unparse(rec_iter)
    apps = [c for c in calls_in(rec_iter) if isinstance(c.func, ast.Attribute) and c.func.attr == "append"]
    loss_apps = [c for c in apps if unparse(c.func.value) == "self._iter_losses"]
    check.decide(len(loss_apps) == 1 and unparse(loss_apps[0].args[0]) == "iter_loss", "C05-R6", "_record_iter appends exactly one loss per iteration", "", tmod.line(rec_iter),
                 fail_detail=f"{len(loss_apps)} appends to _iter_losses")
    lr_apps = [c for c in apps if unparse(c.func.value) in ("self._iter_lrs[key]", "prev_lrs")]
    ok = len(lr_apps) == 3 and "all_keys = set(self._iter_lrs.keys()) | set(optimizers.keys())" in rt and "prev_lrs = [0.0] * current_iter" in rt
    check.decide(ok, "C05-R6", "_record_iter appends one learning rate per optimizer (known or new, back-filled) per iteration", "", tmod.line(rec_iter),
                 fail_detail="learning-rate history is not extended by exactly one entry per optimizer key")
    dc = [c for c in calls_in(clone) if call_name(c) == "copy.deepcopy"]
    check.decide(len(dc) == 1 and unparse(dc[0].args[0]) == "self", "C05-R6", "clone: first attempt is a deep copy of the whole object", "", tmod.line(clone),
                 fail_detail="clone does not deepcopy(self)")
    # the copy starts from an empty memo: whatever a pre-seeded memo maps (id(x) → x) is SHARED by the clone — a sub-model carrying learned state (the dataset
    # model's scan positions / descan shifts and their optimizer) then evolves under both reconstructions at once
    for c_ in dc:
        memo_ = c_.args[1] if len(c_.args) > 1 else kwarg(c_, "memo")
        seeded_ = memo_ is not None and not (isinstance(memo_, ast.Dict) and not memo_.keys) and not (isinstance(memo_, ast.Call) and call_name(memo_) == "dict" and not memo_.args and not memo_.keywords)
        shared_ = sorted({unparse(v_)[:40] for v_ in (memo_.values if isinstance(memo_, ast.Dict) else [])}) if seeded_ else []
        check.decide(not seeded_, "C05-R6", "clone: the deep copy starts from an empty memo (no sub-object is shared with the original)", "", tmod.line(c_), definite=True,
                     fail_detail=f"`{unparse(c_)[:70]}` pre-seeds the memo: {shared_ or 'the mapped objects'} are the SAME objects in the clone and in the original, so continuing one run "
                                 f"advances learned state (positions, optimizer moments) of the other — the clone no longer continues like the uninterrupted run")
    sv = [c for c in calls_in(clone) if (call_name(c) or "") == "self.save"]
    ld = [c for c in calls_in(clone) if (call_name(c) or "").endswith("from_file")]
    ok = len(sv) == 1 and is_const(kwarg(sv[0], "save_raw_data"), True) and len(ld) == 1
    check.decide(ok, "C05-R6", "clone fallback: the full object including the dataset is serialised", unparse(sv[0])[:80] if sv else "", tmod.line(sv[0] if sv else clone),
                 fail_detail="the fallback does not save with save_raw_data=True: the clone cannot own its dataset")
    if ld:
        shared = sorted({unparse(n) for a in list(ld[0].args) + [k.value for k in ld[0].keywords] for n in ast.walk(a)
                         if isinstance(n, ast.Attribute) and dotted(n.value) == "self"})
        check.decide(not shared, "C05-R6", "clone fallback: the reloaded object receives no member of the original (no shared dataset/optimizer)", unparse(ld[0])[:80], tmod.line(ld[0]),
                     fail_detail=f"from_file is given {shared}: the clone shares that module (learnable positions, descan, optimizer) with the original, so continuing one "
                                 f"mutates the other")
        same = unparse(ld[0].args[0]) == unparse(sv[0].args[0]) if ld[0].args and sv and sv[0].args else False
        check.decide(same, "C05-R6", "clone fallback: reloads the file it just wrote", "", tmod.line(ld[0]), fail_detail="save and from_file use different paths")
    ct = unparse(clone)
    ok = "cloned.logger = self.logger.clone()" in ct and "cloned.to(device)" in ct
    check.decide(ok, "C05-R6", "clone: logger and device are set on both arms", "", tmod.line(clone), fail_detail="clone does not restore logger / device after either arm")

    # ---- R8 borrowed serializer rule instances the checkpoint depends on (snapshot lists are element-wise encoded sequences) --------------------
    from ..core.report import SubCheck
    from . import c01 as _c01
    _c01._rule_sequence_order(SubCheck(check, "C05-R8"), repo)
    _c01._rule_probe_handlers(SubCheck(check, "C05-R8"), repo)

    # ---- R9 new optimizers ⇒ schedulers are re-created for them ---------------------------------------------------------------------------------
    # a scheduler holds a reference to ITS optimizer; after set_optimizers() the old schedulers step discarded optimizers until a device move /
    # save / clone happens to re-link them — an interrupted run then decays the learning rate differently from the uninterrupted one
    tmod9, rec9 = repo.func(f"{PT}:Ptychography.reconstruct")
    r9 = CFG(rec9)
    so = [c for c in calls_in(rec9) if (call_name(c) or "") == "self.set_optimizers"]
    ssch = [c for c in calls_in(rec9) if (call_name(c) or "") == "self.set_schedulers"]
    if len(so) != 1 or len(ssch) != 1:
        raise AnalysisError("Ptychography.reconstruct: set_optimizers / set_schedulers call not found")
    so_node, ss_node = r9.node_containing(so[0])[0], r9.node_containing(ssch[0])[0]
    so_guards = [t for t, pol in r9.guards_of(so_node) if pol]
    ss_guards = [(t, pol) for t, pol in r9.guards_of(ss_node) if pol]
    implied, why9 = False, ""
    if not ss_guards:
        implied, why9 = True, "set_schedulers is unconditional"
    for t, _pol in ss_guards:
        so_names = set().union(*[names_in(g) for g in so_guards]) if so_guards else set()
        if so_names and so_names <= names_in(t) | {"self"} and so_names & names_in(t):
            implied, why9 = True, f"`{unparse(t)}` covers the condition of set_optimizers"
        elif isinstance(t, ast.Name):
            # flag idiom: raised in the same block in which set_optimizers() runs
            par = parent_block(rec9, so[0])
            raised = [s_ for s_ in par if isinstance(s_, ast.Assign) and any(isinstance(x, ast.Name) and x.id == t.id for x in s_.targets) and is_const(s_.value, True)]
            lowered = [s_ for s_ in ast.walk(rec9) if isinstance(s_, ast.Assign) and any(isinstance(x, ast.Name) and x.id == t.id for x in s_.targets) and is_const(s_.value, False)]
            implied = bool(raised) and not lowered
            why9 = f"flag `{t.id}` " + ("is raised next to set_optimizers()" if implied else "is not raised where set_optimizers() runs")
    check.decide(implied and ss_node in r9.reachable_from(so_node), "C05-R9", "reconstruct: whenever new optimizers are created the schedulers are re-created for them", why9,
                 tmod9.line(ssch[0]), fail_detail=f"{why9 or 'set_schedulers is guarded by ' + str([unparse(t) for t, _ in ss_guards])}: a call that passes only optimizer_params leaves each "
                                                  f"scheduler bound to the discarded optimizer")

    # ---- R7 recorded preprocessing parameters are the ones that were used ---------------------------------------------------------
    DMm = "quantem.diffractive_imaging.dataset_models"
    dmod, pre = repo.func(f"{DMm}:PtychographyDatasetRaster.preprocess")
    bmod2, pset = repo.func(f"{PB}:PtychographyBase.obj_padding_px@setter")
    check.analysed(f"{DMm}:PtychographyDatasetRaster.preprocess", f"{PB}:PtychographyBase.obj_padding_px@setter")
    rec_dict = next((n.value for n in walk_no_nested_defs(pre) if isinstance(n, ast.Assign) and dotted(n.targets[0]) == "self._preprocessing_params" and isinstance(n.value, ast.Dict)), None)
    if rec_dict is None:
        raise AnalysisError("preprocess: `self._preprocessing_params = {…}` not found")
    params = set(func_params(pre))
    keys = [k.value for k in rec_dict.keys if isinstance(k, ast.Constant)]
    check.floor("recorded preprocessing parameters", len(keys), 6)
    unknown = [k for k in keys if k not in params]
    check.decide(not unknown, "C05-R7", "preprocess: every recorded preprocessing parameter is a parameter of preprocess (from_file replays them as keywords)", str(keys), dmod.line(rec_dict),
                 fail_detail=f"recorded keys {unknown} are not parameters of preprocess: the automatic dataset reload raises / ignores them")
    wrong = [k.value for k, v in zip(rec_dict.keys, rec_dict.values) if isinstance(k, ast.Constant) and not k.value.startswith("plot_")
             and not (isinstance(v, ast.Name) and v.id == k.value)]
    check.decide(not wrong, "C05-R7", "preprocess: each recorded value is the argument of the same name (plot_* switches aside)", "", dmod.line(rec_dict),
                 fail_detail=f"keys {wrong} are recorded with another value than the argument that was used: the reloaded dataset is preprocessed differently")
    # the padding setter re-records the EFFECTIVE padding (after the power-of-two adjustment) — the value the positions and patch indices were built with
    store = next((n for n in walk_no_nested_defs(pset) if isinstance(n, ast.Assign) and dotted(n.targets[0]) == "self._obj_padding_px"), None)
    if store is None:
        raise AnalysisError("obj_padding_px setter: store to self._obj_padding_px not found")
    effective = {"self.obj_padding_px", "self._obj_padding_px"}
    if isinstance(store.value, ast.Name):
        later = [n for n in walk_no_nested_defs(pset) if isinstance(n, (ast.Assign, ast.AugAssign)) and n.lineno > store.lineno
                 and any(isinstance(t, ast.Name) and t.id == store.value.id for t in ast.walk(n.targets[0] if isinstance(n, ast.Assign) else n.target))]
        if not later:
            effective.add(store.value.id)
    rec_st = [n for n in walk_no_nested_defs(pset) if isinstance(n, ast.Assign) and isinstance(n.targets[0], ast.Subscript)
              and unparse(n.targets[0].value).endswith("_preprocessing_params") and is_const(n.targets[0].slice, "obj_padding_px")]
    check.decide(len(rec_st) == 1 and unparse(rec_st[0].value) in effective and rec_st[0].lineno > store.lineno, "C05-R7",
                 "obj_padding_px setter: the padding recorded for the automatic reload is the effective padding that was stored and used", unparse(rec_st[0].value) if rec_st else "",
                 bmod2.line(rec_st[0]) if rec_st else bmod2.line(pset),
                 fail_detail=f"recorded value is `{unparse(rec_st[0].value) if rec_st else None}`, the effective padding is {sorted(effective)}: after a power-of-two adjustment the reloaded "
                             f"dataset is preprocessed with another padding — scan positions and patch indices shift")
    used = [unparse(c.args[0]) for c in calls_in(pset) if (call_name(c) or "") in ("self.dset._set_initial_scan_positions_px", "self.dset._set_patch_indices") and c.args]
    check.decide(len(used) == 2 and all(u in effective for u in used), "C05-R7", "obj_padding_px setter: scan positions and patch indices are rebuilt with the effective padding", str(used),
                 bmod2.line(pset), fail_detail=f"the dataset is rebuilt with {used}, not with {sorted(effective)}")


def _reaches_reconnect(repo: Repo, mod, cls, to: ast.FunctionDef, depth: int):
    """Does this to() (or the implementation its super().to() resolves to) call reconnect?"""
    if depth > 6:
        return False, "super chain too deep"
    direct = [c for c in calls_in(to) if (call_name(c) or "") == "self.reconnect_optimizer_to_parameters"]
    if direct:
        # must not be guarded by anything but `device is not None`
        cfg = CFG(to)
        nodes = cfg.node_containing(direct[0])
        gs = cfg.guards_of(nodes[0]) if nodes else []
        guards = [unparse(t) for t, p in gs]

        def device_guard(t, pol):
            # `<local> is not None` where the local is read from the call's device argument
            if not (pol and isinstance(t, ast.Compare) and len(t.ops) == 1 and isinstance(t.ops[0], ast.IsNot) and is_const(t.comparators[0], None)
                    and isinstance(t.left, ast.Name)):
                return False
            dd = [d for d in definitions(to, t.left.id) if isinstance(d, ast.AST)]
            return bool(dd) and all("kwargs.get('device'" in unparse(d) for d in dd)
        if all(device_guard(t, pol) for t, pol in gs):
            return True, f"{cls.name}.to calls it directly" + (f" under {guards}" if guards else "")
        return False, f"{cls.name}.to calls it only under {guards}"
    sup = [c for c in calls_in(to) if isinstance(c.func, ast.Attribute) and c.func.attr == "to" and isinstance(c.func.value, ast.Call) and call_name(c.func.value) == "super"]
    if not sup:
        return False, f"{cls.name}.to neither calls reconnect nor super().to"
    chain = repo.mro(mod, cls)
    for m, c in chain[1:]:
        nxt = next((d for d in c.body if isinstance(d, ast.FunctionDef) and d.name == "to"), None)
        if nxt is not None:
            ok, why = _reaches_reconnect(repo, m, c, nxt, depth + 1)
            return ok, f"{cls.name}.to → super → {why}"
    return False, f"{cls.name}.to → super().to resolves outside quantem (nn.Module.to): reconnect is never called"


def parent_block(fn: ast.AST, node: ast.AST) -> list:
    """the statement list that contains the statement enclosing `node`"""
    for blk_owner in ast.walk(fn):
        for fld in ("body", "orelse", "finalbody"):
            blk = getattr(blk_owner, fld, None)
            if isinstance(blk, list):
                for st in blk:
                    if isinstance(st, ast.stmt) and any(x is node for x in ast.walk(st)) and not any(
                            isinstance(getattr(st, f2, None), list) and any(any(y is node for y in ast.walk(s2)) for s2 in getattr(st, f2)) for f2 in ("body", "orelse", "finalbody", "handlers")):
                        return blk
    return []


MANIFEST = {
    "text": "Decides necessary structural conditions of resume equivalence (numerical equality of continued runs is runtime): object, "
            "probe and dataset models are nn.Module ∧ AutoSerialize ∧ OptimizerMixin and are first matched by the serializer's "
            "whole-module arm; every to() override of an OptimizerMixin class reaches reconnect_optimizer_to_parameters (directly "
            "or through its super chain); reconnect captures the live param-group settings and state before clear(), restores all "
            "non-'params' entries and re-keys the moments on every path, never reads optimizer.defaults, and re-binds the "
            "scheduler; metadata keys written by save = keys read by from_file, learned positions are restored after the last "
            "reset; history attributes are persisted kinds and not skipped; clone's fallback serialises the full object and hands "
            "no member of the original to the reloaded one.",
    "note": "Not decided: equality of losses/objects after resume, correctness of torch's pickling and of the state re-mapping by "
            "position. save()'s device/metadata restoration is not in try/finally (advisory).",
    "technique": "first-match dispatch evaluation + MRO-resolved call reachability + CFG dominance + key-set agreement (AST)",
}
MANIFEST["text"] += ' Also: every parameter receives its own optimizer-state dict on re-binding (no shared mutable value); the preprocessing parameters recorded for the automatic reload are parameters of preprocess, recorded under their own name, and the recorded object padding is the effective (power-of-two adjusted) padding that was used (R7).'
MANIFEST["text"] += " R3 also: every way of obtaining a dataset in from_file (the caller's argument, the automatic reload from file_path) passes the restore of the persisted learned scan positions — or the 'nothing persisted' side of the metadata tests — before the dataset is attached (must-pass-through on the CFG; found D26)."
MANIFEST["text"] += " R6 also: clone's deepcopy starts from an empty memo (a pre-seeded memo shares the mapped sub-models between clone and original)."
