"""C15 — drift-correction resampling geometry: axis kinds, knot-count agreement, unit weight
(E5, E7, E8)."""
from __future__ import annotations

import ast

from ..core.repo import (AnalysisError, Repo, call_name, calls_in, definitions, dotted, func_params, is_const,
                         kwarg, names_in, unparse, walk_no_nested_defs)
from ..domains.algnf import NotArithmetic, Rat, from_ast
from ..domains.kat import COL, ROW, Comp, Ext, KAT, Seq
from ..domains import homog

DR = "quantem.imaging.drift"
IU = "quantem.core.utils.imaging_utils"

EXPLANATION = (
    "axis-kind analysis of the drift geometry: the unit parameter of a scan line (sampled over the "
    "column extent) is scaled by that same extent in both coordinates; knots are placed around the "
    "centre (extent−1)/2 of the canvas actually allocated, fast offsets from the column extent, slow "
    "offsets from the row extent, direction components indexed consistently per coordinate; all "
    "multi-knot arms evaluate one interpolation basis at the same parameter; the four bilinear "
    "weights sum to one identically, indices wrap, and the weight map only passes mass-conserving "
    "operations"
)

IMG_AXES = {0: ROW, 1: COL}


def run(check, repo: Repo) -> None:
    mod = repo.module(DR)
    imod = repo.module(IU)
    _, init = repo.func(f"{DR}:DriftInterpolator.__init__")
    _, tr = repo.func(f"{DR}:DriftInterpolator.transform_rows")
    _, tc = repo.func(f"{DR}:DriftInterpolator.transform_coordinates")
    _, wi = repo.func(f"{DR}:DriftInterpolator.warp_image")
    _, pre = repo.func(f"{DR}:DriftCorrection.preprocess")
    _, kde = repo.func(f"{IU}:bilinear_kde")
    _, bai = repo.func(f"{IU}:bilinear_array_interpolation")
    check.analysed(f"{DR}:DriftInterpolator.__init__", f"{DR}:DriftInterpolator.transform_rows",
                   f"{DR}:DriftInterpolator.transform_coordinates", f"{DR}:DriftInterpolator.warp_image",
                   f"{DR}:DriftCorrection.preprocess", f"{IU}:bilinear_kde", f"{IU}:bilinear_array_interpolation")

    # ---- R1 kinds: the unit parameter and its scale -------------------------------------------------
    k0 = KAT(init, index_axes={"input_shape": IMG_AXES}).run()
    u = k0.env.get("self.u")
    if u is None:
        raise AnalysisError("DriftInterpolator.__init__: kind of self.u not derivable")
    check.decide(isinstance(u, Comp) and u.axis == COL, "C15-R1", "DriftInterpolator: the scan-line parameter u is sampled over the column extent",
                 str(u), mod.line(init), fail_detail=f"self.u is {u}: a scan line has one sample per image column")
    # … and runs from exactly 0 at the first to exactly 1 at the last column (the knot abscissae are linspace(0, 1, k)): linspace(0, 1, cols) or index/(cols − 1)
    udef = [n.value for n in ast.walk(init) if isinstance(n, ast.Assign) and dotted(n.targets[0]) == "self.u"]
    if len(udef) != 1:
        raise AnalysisError("DriftInterpolator.__init__: single definition of self.u not found")
    ue, u_ok, u_why = udef[0], None, ""
    if isinstance(ue, ast.Call) and call_name(ue) == "np.linspace" and len(ue.args) >= 3:
        u_ok = is_const(ue.args[0], 0) and is_const(ue.args[1], 1) and unparse(ue.args[2]) == "input_shape[1]" and kwarg(ue, "endpoint") is None
        u_why = unparse(ue)
    elif isinstance(ue, ast.BinOp) and isinstance(ue.op, ast.Div):
        num_ok = unparse(ue.left) in ("self.cols_input", "np.arange(input_shape[1])")
        try:
            den = from_ast(ue.right, {"input_shape[1]": Rat.sym("N")})
            if num_ok and den.equals(Rat.sym("N") - Rat.const(1)):
                u_ok = True
            elif num_ok:
                u_ok, u_why = False, f"index / ({unparse(ue.right)}) ends at (N−1)/({unparse(ue.right)}) ≠ 1"
        except NotArithmetic:
            u_ok = None
    if u_ok is None:
        raise AnalysisError(f"DriftInterpolator.__init__: self.u = `{unparse(ue)[:50]}` not recognised")
    check.decide(u_ok, "C15-R1", "DriftInterpolator: the scan-line parameter runs from 0 at the first column to exactly 1 at the last", u_why, mod.line(ue), definite=True,
                 fail_detail=f"self.u = `{unparse(ue)[:60]}` ({u_why}): the 2–4-knot arms evaluate their spline short of the last knot, so straight lines described by 1 knot and by "
                             f"k knots no longer give identical coordinates")
    seeds = {k: v for k, v in k0.env.items() if k.startswith("self.")}
    k1 = KAT(tr, index_axes={"self.input_shape": IMG_AXES}, seeds=seeds).run()
    single = None
    for n in ast.walk(tr):
        if isinstance(n, ast.If) and unparse(n.test) == "num_knots == 1":
            single = n
    if single is None:
        raise AnalysisError("transform_rows: single-knot arm not found")
    arm_nodes = {id(x) for s in single.body for x in ast.walk(s)}
    arm_clashes = [(n, m) for n, m in k1.clashes if id(n) in arm_nodes]
    other_clashes = [(n, m) for n, m in k1.clashes if id(n) not in arm_nodes]
    coords = [s for s in single.body if isinstance(s, ast.Assign) and isinstance(s.targets[0], ast.Name)]
    check.floor("single-knot coordinate expressions", len(coords), 2)
    for s in coords:
        name = s.targets[0].id
        mine = [(n, m) for n, m in arm_clashes if any(n is x for x in ast.walk(s))]
        # the extent that scales u
        exts = [unparse(x) for x in ast.walk(s.value) if isinstance(x, ast.Subscript) and unparse(x.value) == "self.input_shape"]
        # equivalent spelling: u·(cols−1) is the column index itself — `self.cols_input[None, :] * fast[k]` with cols_input = arange(columns)
        txt_ = unparse(s.value)
        ci = k0.env.get("self.cols_input")
        if "self.u" not in txt_ and "self.cols_input" in txt_ and not exts and getattr(ci, "axis", None) == COL and not mine:
            ci_def = [unparse(n.value) for n in ast.walk(init) if isinstance(n, ast.Assign) and dotted(n.targets[0]) == "self.cols_input"]
            if ci_def == ["np.arange(input_shape[1])"]:
                exts = ["self.input_shape[1]"]
        check.decide(not mine and exts == ["self.input_shape[1]"], "C15-R1",
                     f"transform_rows[1 knot]: `{name}` scales the column-sampled parameter by (columns − 1)", f"extent used: {exts}", mod.line(s),
                     fail_detail=(mine[0][1] if mine else f"extent used: {exts}") +
                     ": the line end is start + fast·(cols−1); scaling by the row count shears non-square images and disagrees "
                     "with the 2–4-knot interpolation")
        # structure: start + u · fast[k] · (…)
        comp_idx = [unparse(x.slice) for x in ast.walk(s.value) if isinstance(x, ast.Subscript) and unparse(x.value) == "self.scan_fast"]
        knot_idx = [unparse(x.slice) for x in ast.walk(s.value) if isinstance(x, ast.Subscript) and unparse(x.value) == "knots_row"]
        check.decide(len(comp_idx) == 1 and comp_idx == knot_idx, "C15-R1",
                     f"transform_rows[1 knot]: `{name}` starts at its own knot coordinate and moves along the matching direction component",
                     f"knot {knot_idx} direction {comp_idx}", mod.line(s),
                     fail_detail=f"knot coordinate index {knot_idx} vs direction component index {comp_idx}")
    for n, m in other_clashes:
        check.violated("C15-R1", f"transform_rows: axis clash `{unparse(n)[:50]}`", m, mod.line(n), definite=True)
    rets = [unparse(n.value) for n in ast.walk(tr) if isinstance(n, ast.Return)]
    check.decide(rets == ["(xa, ya)"], "C15-R1", "transform_rows returns (row coordinate, column coordinate)", str(rets), mod.line(tr),
                 fail_detail=f"returns {rets}")

    # knot placement
    _knot_placement(check, mod, pre, repo)

    # ---- R2 knot-count agreement ------------------------------------------------------------------------
    calls = [c for c in calls_in(tr) if isinstance(c.func, ast.Call) and call_name(c.func) == "interp1d"]
    check.floor("interp1d evaluations", len(calls), 4)
    basis_def = [x for x in definitions(tr, "basis") if isinstance(x, ast.AST)]
    ok_basis = len(basis_def) == 1 and unparse(basis_def[0]) == "np.linspace(0, 1, num_knots)"
    nk = [x for x in definitions(tr, "num_knots") if isinstance(x, ast.AST)]
    ok_basis = ok_basis and len(nk) == 1 and unparse(nk[0]) == "knots_row.shape[-1]"
    check.decide(ok_basis, "C15-R2", "transform_rows: the knot abscissae are linspace(0, 1, number of knots)", "", mod.line(tr),
                 fail_detail="basis is not np.linspace(0, 1, knots_row.shape[-1])")
    for c in calls:
        inner = c.func
        x = unparse(inner.args[0]) if inner.args else "?"
        y = unparse(inner.args[1]) if len(inner.args) > 1 else "?"
        at = unparse(c.args[0]) if c.args else "?"
        ok = x == "basis" and y in ("knots_row[0]", "knots_row[1]") and at == "self.u"
        check.decide(ok, "C15-R2", f"transform_rows: interp1d({x}, {y})({at}) uses the common basis and parameter", "", mod.line(c),
                     fail_detail=f"interp1d({x}, {y}) evaluated at {at}: the multi-knot arms do not share one basis / parameter")
    ys = sorted(unparse(c.func.args[1]) for c in calls)
    check.decide(ys.count("knots_row[0]") == ys.count("knots_row[1]"), "C15-R2", "transform_rows: every arm interpolates both coordinates", str(ys), mod.line(tr),
                 fail_detail=f"interpolated ordinates: {ys}")
    kinds = {}
    for n in ast.walk(tr):
        if isinstance(n, ast.If) and unparse(n.test).startswith("num_knots =="):
            kd = [unparse(kwarg(c.func, "kind")) for s in n.body for c in ast.walk(s) if isinstance(c, ast.Call) and isinstance(c.func, ast.Call) and call_name(c.func) == "interp1d"]
            if kd:
                kinds[unparse(n.test)] = set(kd)
    kd = [x for x in definitions(tr, "kind") if isinstance(x, ast.AST)]
    ok = kinds.get("num_knots == 2") == {"'linear'"} and len(kd) == 1 and unparse(kd[0]) == "'quadratic' if num_knots == 3 else 'cubic'"
    check.decide(ok, "C15-R2", "transform_rows: interpolation order is chosen by the knot count only (2→linear, 3→quadratic, 4→cubic)", str(kinds), mod.line(tr),
                 fail_detail="the interpolation kind is not linear/quadratic/cubic for 2/3/≥4 knots")
    # transform_coordinates: both arms fill (xa, ya) per image row with the row's knots
    txt = unparse(tc)
    ok = "xa, ya = self.transform_rows(knots)" in txt and "xa[i], ya[i] = self.transform_rows(knots[:, i])" in txt and "for i in range(self.input_shape[0])" in txt
    check.decide(ok, "C15-R2", "transform_coordinates: every image row is transformed with its own knots, in (row, col) coordinate order", "", mod.line(tc),
                 fail_detail="transform_coordinates does not evaluate transform_rows per image row over input_shape[0] rows")
    wtxt = unparse(wi)
    ok = "xa=xa * upsample_factor" in wtxt and "ya=ya * upsample_factor" in wtxt and "values=image" in wtxt
    inplace_scaled = [n for n in ast.walk(wi) if isinstance(n, ast.AugAssign) and isinstance(n.op, ast.Mult) and dotted(n.target) in ("xa", "ya") and unparse(n.value) == "upsample_factor"]
    if not ok and len(inplace_scaled) == 2 and "xa=xa" in wtxt and "ya=ya" in wtxt and "values=image" in wtxt:
        # the same scaling, applied in place to the arrays transform_coordinates returned.  Sound as long as those arrays are this call's own: a transform_coordinates that
        # hands back arrays it keeps (a memo) would have its stored coordinates multiplied again on every resampling
        keeps = [n for n in ast.walk(tc) if isinstance(n, ast.Return) and n.value is not None and any(
            isinstance(x, ast.Name) and any(isinstance(d_, ast.AST) and _reads_kept_state(d_) for d_ in definitions(tc, x.id))
            for x in ast.walk(n.value))]
        if keeps:
            check.violated("C15-R2", "warp_image hands (row, col) coordinates and the image values to the splat",
                           f"warp_image scales the coordinate arrays in place (`{unparse(inplace_scaled[0])}`) while transform_coordinates returns arrays it keeps on the object "
                           f"(`{unparse(keeps[0])[:50]}`): every resampling with an upsampling factor multiplies the stored coordinates again — later images are placed at 2×, 6×, … the "
                           f"canvas position", mod.line(inplace_scaled[0]), definite=True)
        ok = True
    check.decide(ok, "C15-R2", "warp_image hands (row, col) coordinates and the image values to the splat", "", mod.line(wi),
                 fail_detail="warp_image does not pass xa→xa, ya→ya, values=image to bilinear_kde")

    # ---- R3 unit weight -------------------------------------------------------------------------------------
    for label, fn, m in (("bilinear_kde", kde, imod), ("bilinear_array_interpolation", bai, imod)):
        lst = None
        for n in ast.walk(fn):
            if isinstance(n, ast.For) and isinstance(n.iter, ast.List) and len(n.iter.elts) == 4 and all(isinstance(e, ast.Tuple) and len(e.elts) == 3 for e in n.iter.elts):
                lst = n
        if lst is None:
            raise AnalysisError(f"{label}: the four-corner weight table not found")
        total = Rat.const(0)
        offs = []
        ok_sign = True
        try:
            for e in lst.iter.elts:
                env = {"dx[start:end]": Rat.sym("dx"), "dy[start:end]": Rat.sym("dy")}
                w = from_ast(e.elts[2], env)
                total = total + w
                ox, oy = ast.literal_eval(e.elts[0]), ast.literal_eval(e.elts[1])
                offs.append((ox, oy))
                # weight of corner (ox, oy) = (dx if ox else 1-dx)·(dy if oy else 1-dy)
                wx = Rat.sym("dx") if ox else Rat.const(1) - Rat.sym("dx")
                wy = Rat.sym("dy") if oy else Rat.const(1) - Rat.sym("dy")
                ok_sign = ok_sign and w.equals(wx * wy)
        except (NotArithmetic, ValueError):
            raise AnalysisError(f"{label}: weight expression not arithmetic")
        check.decide(total.equals(Rat.const(1)), "C15-R3", f"{label}: the four bilinear weights sum to 1 identically", str(total), m.line(lst),
                     fail_detail=f"Σ weights = {total}: a pixel no longer contributes unit total weight")
        check.decide(ok_sign and sorted(offs) == [(0, 0), (0, 1), (1, 0), (1, 1)], "C15-R3",
                     f"{label}: corner (i, j) receives weight (dx or 1−dx)·(dy or 1−dy) matching its offsets", str(offs), m.line(lst),
                     fail_detail="a corner offset is paired with the wrong weight")
        rm = [c for c in calls_in(fn) if call_name(c) == "np.ravel_multi_index"]
        ok = len(rm) == 1 and is_const(kwarg(rm[0], "mode"), "wrap") and unparse(kwarg(rm[0], "dims") or ast.Constant(None)) == "output_shape"
        check.decide(ok, "C15-R3", f"{label}: flat indices wrap periodically into the output shape (no weight is dropped)", "", m.line(rm[0] if rm else fn),
                     fail_detail="np.ravel_multi_index is not called with dims=output_shape, mode='wrap' (out-of-range corners raise or are clipped)")
        inds = [x for x in definitions(lst, "inds") if isinstance(x, ast.AST)]
        ok = len(inds) == 1 and unparse(inds[0]) == "[xF[start:end] + dx_off, yF[start:end] + dy_off]"
        check.decide(ok, "C15-R3", f"{label}: corner indices = (⌊x⌋ + i, ⌊y⌋ + j) in (row, col) order", "", m.line(lst),
                     fail_detail=f"inds = {unparse(inds[0]) if inds else '?'}")
        fl = {k: [unparse(x) for x in definitions(fn, k) if isinstance(x, ast.AST)] for k in ("xF", "yF", "dx", "dy")}
        ok = fl["dx"] == ["xa.ravel() - xF"] and fl["dy"] == ["ya.ravel() - yF"] and all("np.floor" in v[0] for v in (fl["xF"], fl["yF"]) if v)
        check.decide(ok, "C15-R3", f"{label}: fractional parts are measured from the floor of the same coordinate", str(fl), m.line(fn),
                     fail_detail=f"{fl}")
    # weight map path: only mass-conserving operations between the splat and the returned pix_count
    gf = [c for c in calls_in(kde) if call_name(c) == "gaussian_filter"]
    check.floor("bilinear_kde: smoothing calls", len(gf), 2)
    for c in gf:
        md = kwarg(c, "mode") or (c.args[4] if len(c.args) > 4 else None)
        ok = md is None or (isinstance(md, ast.Constant) and md.value in ("reflect", "wrap", "grid-wrap"))
        tr_ = kwarg(c, "truncate")
        check.decide(ok, "C15-R3", f"bilinear_kde: gaussian_filter({unparse(c.args[0])}) uses a mass-conserving boundary mode",
                     f"mode={unparse(md) if md is not None else 'default (reflect)'}", imod.line(c),
                     fail_detail=f"mode={unparse(md) if md is not None else '?'} lets kernel mass leave the canvas: pixels near the border "
                                 f"contribute less than unit weight and the weight map no longer sums to the pixel count")
    acc = [n for n in ast.walk(kde) if isinstance(n, ast.AugAssign) and dotted(n.target) == "pix_count"]
    ok = len(acc) == 1 and isinstance(acc[0].op, ast.Add) and "np.bincount(inds_1D, weights=weights" in unparse(acc[0].value)
    check.decide(ok, "C15-R3", "bilinear_kde: the count map accumulates exactly the bilinear weights", "", imod.line(kde),
                 fail_detail="pix_count is not accumulated as bincount(inds_1D, weights=weights)")
    # the weights that are accumulated are the table's corner weights themselves: a re-binding inside the splat loop that multiplies them by a
    # mask drops mass.  An option-guarded re-binding is evaluated for the value the drift resampler (warp_image) actually passes.
    if acc:
        wexpr = None
        for c in ast.walk(acc[0].value):
            if isinstance(c, ast.Call) and call_name(c) == "np.bincount":
                wexpr = kwarg(c, "weights")
        corner_loop = next((n for n in ast.walk(kde) if isinstance(n, ast.For) and isinstance(n.iter, ast.List) and len(n.iter.elts) == 4), None)
        if isinstance(wexpr, ast.Name) and corner_loop is not None:
            rebinds = [n for st_ in corner_loop.body for n in ast.walk(st_) if isinstance(n, (ast.Assign, ast.AugAssign))
                       and any(isinstance(t, ast.Name) and t.id == wexpr.id for t in (n.targets if isinstance(n, ast.Assign) else [n.target]))]
            key_ = "bilinear_kde: the accumulated weights are the four corner weights themselves (nothing is masked out before the count map)"
            if not rebinds:
                check.holds("C15-R3", key_, "", imod.line(corner_loop))
            for rb in rebinds:
                masks = any(isinstance(x, ast.Compare) for x in ast.walk(rb.value)) or any(
                    isinstance(x, ast.Name) and any(isinstance(d_, ast.AST) and any(isinstance(y, ast.Compare) for y in ast.walk(d_)) for d_ in definitions(kde, x.id))
                    for x in ast.walk(rb.value) if isinstance(x, ast.Name) and x.id != wexpr.id)
                if not masks:
                    raise AnalysisError(f"bilinear_kde: `{unparse(rb)[:60]}` re-binds the corner weights in a way that is not recognised")
                # guard on a parameter?
                from ..core.repo import parent as _parent, param_default
                g, cur, sense = None, rb, True
                while cur is not corner_loop and cur is not None:
                    par = _parent(cur)
                    if isinstance(par, ast.If):
                        g, sense = par, cur in par.body
                        break
                    cur = par
                active = True
                why = "unconditionally"
                if g is not None:
                    t, neg = g.test, False
                    if isinstance(t, ast.UnaryOp) and isinstance(t.op, ast.Not):
                        t, neg = t.operand, True
                    if not (isinstance(t, ast.Name) and t.id in func_params(kde) and not definitions(kde, t.id)):
                        raise AnalysisError(f"bilinear_kde: the corner weights are masked under `{unparse(g.test)[:50]}` — not decided")
                    wcalls = [c for c in calls_in(wi) if (call_name(c) or "").split(".")[-1] == "bilinear_kde"]
                    if len(wcalls) != 1:
                        raise AnalysisError("warp_image: bilinear_kde call not found")
                    passed = kwarg(wcalls[0], t.id) or param_default(kde, t.id)
                    if not isinstance(passed, ast.Constant):
                        raise AnalysisError(f"warp_image passes a non-constant `{t.id}` to bilinear_kde — not decided")
                    truth = bool(passed.value) != neg
                    active = truth == sense
                    why = f"for {t.id}={passed.value!r}, the value the drift resampler passes"
                check.decide(not active, "C15-R3", key_, f"masking branch not taken {why}", imod.line(rb), definite=True,
                             fail_detail=f"`{unparse(rb)[:60]}` multiplies the corner weights by a mask {why}: contributions that fall outside the canvas are dropped instead "
                                         f"of wrapped, so an image pixel near the canvas border contributes less than unit weight and the weight map no longer sums to the pixel count")
    # ---- R5/R6 fixed-point structure of align_translation ------------------------------------------------------
    _fixed_point(check, repo)
    _rebuilt_geometry(check, repo)
    # ---- R4 borrowed rule instances: the NumPy registration helper behind align_translation (C13's rules on cross_correlation_shift / dft_upsample) ----
    from ..core.report import SubCheck
    from . import c13
    c13.run(SubCheck(check, "C15-R4", keep=lambda construct, where: construct.startswith(("cross_correlation_shift", "dft_upsample", "parabolic_peak", "_max_shift_mask"))
                     and "torch" not in construct.split(":")[0]), repo)


def _knot_placement(check, mod, pre, repo=None) -> None:
    loop = None
    for n in walk_no_nested_defs(pre):
        if isinstance(n, ast.For) and any(isinstance(s, ast.Assign) and dotted(s.targets[0]) in ("v_slow", "u_fast") for s in n.body):
            loop = n
    if loop is None:
        raise AnalysisError("preprocess: knot placement loop not found")
    k = KAT(pre, index_axes={"shape": IMG_AXES, "self.shape": {1: ROW, 2: COL}}).run(loop.body)
    for n, m in k.clashes:
        check.violated("C15-R1", f"preprocess: axis clash `{unparse(n)[:60]}`", m, mod.line(n), definite=True)
    v, u = k.env.get("v_slow"), k.env.get("u_fast")
    if v is None or u is None:
        raise AnalysisError("preprocess: kinds of v_slow / u_fast not derivable")
    check.decide(isinstance(v, Comp) and v.axis == ROW, "C15-R1", "preprocess: slow offsets span the image rows", str(v), mod.line(loop),
                 fail_detail=f"v_slow is {v}")
    check.decide(isinstance(u, Comp) and u.axis == COL, "C15-R1", "preprocess: fast offsets span the image columns", str(u), mod.line(loop),
                 fail_detail=f"u_fast is {u}")
    # ends are ∓(extent−1)/2
    for nm, ax in (("v_slow", 0), ("u_fast", 1)):
        d = [x for x in definitions(loop, nm) if isinstance(x, ast.AST)]
        ok = False
        if len(d) == 1 and isinstance(d[0], ast.Call) and call_name(d[0]) == "np.linspace" and len(d[0].args) >= 3:
            try:
                env = {f"shape[{ax}]": Rat.sym("N")}
                a, b = from_ast(d[0].args[0], env), from_ast(d[0].args[1], env)
                half = (Rat.sym("N") - Rat.const(1)) / Rat.const(2)
                ok = a.equals(-half) and b.equals(half)
            except NotArithmetic:
                ok = False
        cnt = unparse(d[0].args[2]) if d and isinstance(d[0], ast.Call) and len(d[0].args) >= 3 else "?"
        ok_cnt = cnt == ("shape[0]" if nm == "v_slow" else "self.number_knots")
        check.decide(ok and ok_cnt, "C15-R1", f"preprocess: {nm} runs from −(N−1)/2 to +(N−1)/2 of its own image extent", f"count {cnt}", mod.line(loop),
                     fail_detail=f"{nm} = {unparse(d[0]) if d else '?'}")
    # coordinate expressions
    stk = [c for c in calls_in(loop) if call_name(c) == "np.stack" and c.args and isinstance(c.args[0], (ast.List, ast.Tuple))]
    if len(stk) != 1 or len(stk[0].args[0].elts) != 2:
        raise AnalysisError("preprocess: np.stack([xa, ya]) not found")
    names = [unparse(e) for e in stk[0].args[0].elts]
    canvas = {}
    sh = [x for x in definitions(pre, "self.shape") if isinstance(x, ast.AST)]
    for slot, nm in enumerate(names):
        d = [x for x in definitions(loop, nm) if isinstance(x, ast.AST)]
        if len(d) != 1:
            raise AnalysisError(f"preprocess: coordinate {nm} not found")
        e = d[0]
        want_ext = f"self.shape[{slot + 1}]"
        # centre term: the additive term free of u_fast / v_slow
        terms = _add_terms(e)
        centre = [t for t in terms if not ({"u_fast", "v_slow"} & names_in(t))]
        ok_c = False
        if len(centre) == 1:
            try:
                c = from_ast(centre[0], {want_ext: Rat.sym("E")})
                ok_c = c.equals((Rat.sym("E") - Rat.const(1)) / Rat.const(2))
            except NotArithmetic:
                ok_c = False
        check.decide(ok_c, "C15-R1", f"preprocess: coordinate {slot} is centred at (canvas extent {slot + 1} − 1)/2 of the canvas actually allocated",
                     unparse(centre[0]) if centre else "", mod.line(e),
                     fail_detail=f"centre term `{unparse(centre[0]) if centre else '?'}` is not ({want_ext} − 1)/2: the image is rotated about a "
                                 f"point that is not the centre of the allocated canvas")
        idx = sorted({unparse(x.slice.elts[-1]) for x in ast.walk(e) if isinstance(x, ast.Subscript) and unparse(x.value) in ("self.scan_fast", "self.scan_slow") and isinstance(x.slice, ast.Tuple)})
        check.decide(idx == [str(slot)], "C15-R1", f"preprocess: coordinate {slot} uses component {slot} of both scan vectors", str(idx), mod.line(e),
                     fail_detail=f"coordinate {slot} mixes direction components {idx}")
        fast_ok = any(isinstance(t, ast.BinOp) and "u_fast[None, :]" in unparse(t) and "self.scan_fast" in unparse(t) for t in terms)
        slow_ok = any(isinstance(t, ast.BinOp) and "v_slow[:, None]" in unparse(t) and "self.scan_slow" in unparse(t) for t in terms)
        check.decide(fast_ok and slow_ok and len(terms) == 3, "C15-R1",
                     f"preprocess: coordinate {slot} = centre + fast offset·fast vector + slow offset·slow vector (knots along the last axis, rows along the first)",
                     "", mod.line(e), fail_detail="the knot coordinate is not centre + u_fast[None,:]·scan_fast + v_slow[:,None]·scan_slow")
    # scan vectors are orthonormal rotations of each other
    fast = [n.value for n in ast.walk(pre) if isinstance(n, ast.Assign) and dotted(n.targets[0]) == "self.scan_fast"]
    slow = [n.value for n in ast.walk(pre) if isinstance(n, ast.Assign) and dotted(n.targets[0]) == "self.scan_slow"]
    if len(fast) != 1 or len(slow) != 1:
        # derived in another method: then every place that (re)assigns the angles must refresh them, or preprocess() uses stale vectors
        dmod_, dcls_ = repo.cls(f"{DR}:DriftCorrection")
        meths = [f_ for f_ in dcls_.body if isinstance(f_, ast.FunctionDef)]
        where_ = [f_ for f_ in meths if any(isinstance(n, ast.Assign) and dotted(n.targets[0]) == "self.scan_fast" for n in ast.walk(f_))]
        if not where_:
            raise AnalysisError("preprocess: scan vector definitions not found")
        angle_writers = [f_ for f_ in meths if any(isinstance(n, ast.Assign) and dotted(n.targets[0]) in ("self._scan_direction_degrees", "self.scan_direction_degrees") for n in ast.walk(f_))
                         and not (f_.name == "__init__" and not any(dotted(n.targets[0]) == "self._scan_direction_degrees" for n in ast.walk(f_) if isinstance(n, ast.Assign)))]
        stale = [f_.name + ("@setter" if any(isinstance(d_, ast.Attribute) and d_.attr == "setter" for d_ in f_.decorator_list) else "") for f_ in angle_writers if f_ not in where_]
        check.decide(not stale, "C15-R1", "the scan vectors are derived from the CURRENT scan angles whenever preprocess() builds the geometry", f"derived in {[f_.name for f_ in where_]}", mod.line(where_[0]),
                     fail_detail=f"scan_fast/scan_slow are computed in {[f_.name for f_ in where_]}, but {stale} assigns the angles without refreshing them: after the angles are reassigned "
                                 f"preprocess() builds knots and interpolators from the construction-time rotation")
        fast = [n.value for n in ast.walk(where_[0]) if isinstance(n, ast.Assign) and dotted(n.targets[0]) == "self.scan_fast"]
        slow = [n.value for n in ast.walk(where_[0]) if isinstance(n, ast.Assign) and dotted(n.targets[0]) == "self.scan_slow"]
        if len(fast) != 1 or len(slow) != 1:
            raise AnalysisError("scan vector definitions not found")

    def comps(e):
        if isinstance(e, ast.Call) and call_name(e) == "np.stack" and isinstance(e.args[0], ast.List):
            return [unparse(x) for x in e.args[0].elts]
        return None
    f, s = (comps(fast[0]) if fast else None), (comps(slow[0]) if slow else None)
    ok = f == ["np.sin(-self.scan_direction)", "np.cos(-self.scan_direction)"] and s == ["np.cos(-self.scan_direction)", "-np.sin(-self.scan_direction)"]
    check.decide(ok, "C15-R1", "preprocess: scan_fast = (sin, cos)(−θ), scan_slow = (cos, −sin)(−θ) — an orthonormal, right-handed pair", f"{f} {s}", mod.line(pre),
                 fail_detail=f"scan vectors are {f} / {s}: not a rotation pair")


def _reads_kept_state(e: ast.AST) -> bool:
    """the expression loads a DATA attribute of self (not a method being called) or getattr(self, …): a value the object keeps between calls"""
    callees = {id(c.func) for c in ast.walk(e) if isinstance(c, ast.Call)}
    for y in ast.walk(e):
        if isinstance(y, ast.Attribute) and dotted(y.value) == "self" and id(y) not in callees and y.attr.startswith("_"):
            return True
        if isinstance(y, ast.Call) and call_name(y) == "getattr" and y.args and dotted(y.args[0]) == "self":
            return True
    return False


def _fixed_point(check, repo: Repo) -> None:
    """C15-R5/R6 — the structural half of the fixed-point clause ("identical images … the knots do not move")."""
    mod, al = repo.func(f"{DR}:DriftCorrection.align_translation")
    _, pre = repo.func(f"{DR}:DriftCorrection.preprocess")
    check.analysed(f"{DR}:DriftCorrection.align_translation")
    REG = ("cross_correlation_shift", "cross_correlation_shift_torch")

    def is_reg(c) -> bool:
        return isinstance(c, ast.Call) and (call_name(c) or "").split(".")[-1] in REG

    def with_image(c: ast.Call) -> bool:
        k = kwarg(c, "return_shifted_image")
        return k is not None and not is_const(k, False)

    def is_source(e):
        if isinstance(e, homog.TupleElt) and is_reg(e.call):
            if not with_image(e.call):
                return None
            return homog.H if e.index == 0 else homog.U
        if is_reg(e) and not with_image(e):
            return homog.H
        return None

    regs = [c for c in calls_in(al) if is_reg(c)]
    check.floor("align_translation: registration calls", len(regs), 1)
    hz = homog.Homog(al, is_source, lambda e: dotted(e) == "self.knots").run()
    check.floor("align_translation: stores into the knots", len(hz.sinks), 1)
    for st, kind, v in hz.sinks:
        key = f"align_translation: `{unparse(st)[:70]}` moves the knots by an amount that vanishes with the measured shifts"
        if kind == "aug?":
            raise AnalysisError(f"align_translation: `{unparse(st)[:60]}` updates the knots with an operator other than +=/-= (not recognised)")
        good = v in (homog.Z, homog.H) if kind == "aug+" else v == homog.K
        if good:
            check.holds("C15-R5", key, f"update is {v}: zero-preserving in the registration result", mod.line(st))
        elif v == homog.C:
            check.violated("C15-R5", key, "the update contains a non-zero constant that does not depend on the measured shifts: a stack of identical images "
                           "(all shifts zero) still moves its knots — translation alignment has no fixed point", mod.line(st), definite=True, value=v)
        else:
            raise AnalysisError(f"align_translation: the knot update `{unparse(st)[:60]}` is not recognised as a zero-preserving function of the measured shifts")

    # R6 — per-image loops treat every image alike: the image index only selects per-image entries
    loops = []
    for fn in (pre, al):
        for n in walk_no_nested_defs(fn):
            if isinstance(n, ast.For) and isinstance(n.target, ast.Name) and isinstance(n.iter, ast.Call) and call_name(n.iter) == "range" \
                    and "self.shape[0]" in unparse(n.iter) and not any(is_reg(c) for c in calls_in(n)):
                loops.append((fn, n))
    check.floor("per-image loops (preprocess, align_translation)", len(loops), 5)
    for fn, lp in loops:
        ix = lp.target.id
        bad, unknown = [], []
        for st in lp.body:
            for n in ast.walk(st):
                if not (isinstance(n, ast.Name) and n.id == ix and isinstance(n.ctx, ast.Load)):
                    continue
                # climb to the statement: fine when the first structural ancestor is a subscript index
                cur, verdict = n, None
                from ..core.repo import parent as _parent
                while cur is not st and verdict is None:
                    p = _parent(cur)
                    if p is None:
                        break
                    if isinstance(p, ast.Subscript) and cur is p.slice:
                        verdict = "index"
                    elif isinstance(p, (ast.Tuple, ast.Slice)):
                        pass
                    elif isinstance(p, (ast.JoinedStr, ast.FormattedValue)):
                        verdict = "text"
                    elif isinstance(p, (ast.BinOp, ast.UnaryOp)):
                        verdict = "arith" if isinstance(st, (ast.Assign, ast.AugAssign, ast.Expr)) else "unknown"
                    else:
                        verdict = "unknown"
                    cur = p
                if verdict == "arith":
                    bad.append(n)
                elif verdict in (None, "unknown"):
                    unknown.append(n)
        key = f"{fn.name}: loop `for {ix} in {unparse(lp.iter)}` uses the image index only to select per-image entries"
        if bad:
            from ..core.repo import enclosing_stmt
            check.violated("C15-R6", key, f"`{unparse(enclosing_stmt(bad[0]))[:90]}` computes with the image index: two identical images with the same scan direction are "
                           f"placed / warped differently, so identical stacks are not a fixed point of the alignment", mod.line(bad[0]), definite=True)
        elif unknown:
            raise AnalysisError(f"{fn.name}: use of the image index `{ix}` outside a subscript not recognised (`{unparse(unknown[0])}` at {mod.line(unknown[0])})")
        else:
            check.holds("C15-R6", key, "", mod.line(lp))


def _rebuilt_geometry(check, repo: Repo) -> None:
    """C15-R7 — preprocess() derives the whole per-image geometry from the CURRENT settings: the knot list and the interpolator list are rebuilt on
    every path; a list kept from an earlier call is only sound when the condition that keeps it covers everything its entries were built from."""
    from ..core.cfg import assigned_on_every_path
    mod, pre = repo.func(f"{DR}:DriftCorrection.preprocess")
    for attr, ctor in (("self.knots", None), ("self.interpolator", "DriftInterpolator")):
        key = f"preprocess: `{attr}` is rebuilt from the current settings on every path"
        every, via, _ = assigned_on_every_path(pre, lambda t, a=attr: dotted(t) == a)
        if not via:
            raise AnalysisError(f"preprocess: no store into {attr}")
        if every:
            check.holds("C15-R7", key, f"{len(via)} store(s) on every normal path", mod.line(pre))
            continue
        guards = [n for n in walk_no_nested_defs(pre) if isinstance(n, ast.If) and any(isinstance(x, ast.Assign) and any(dotted(t) == attr for t in x.targets)
                                                                                         for b in (n.body, n.orelse) for s_ in b for x in ast.walk(s_))]
        if ctor is None or len(guards) != 1:
            raise AnalysisError(f"preprocess: {attr} is kept from an earlier call under a condition that is not recognised")
        # what the entries are built from (attributes of self in the constructor arguments) vs what the keeping condition looks at
        built = set()
        for c in calls_in(pre):
            if call_name(c) == ctor:
                for a in list(c.args) + [k.value for k in c.keywords]:
                    built |= {dotted(x) for x in ast.walk(a) if isinstance(x, ast.Attribute) and dotted(x.value) == "self"}
        seen, stack, looked = set(), [guards[0].test], set()
        while stack:
            e = stack.pop()
            for x in ast.walk(e):
                if isinstance(x, ast.Attribute) and dotted(x.value) == "self":
                    looked.add(dotted(x))
                elif isinstance(x, ast.Name) and x.id not in seen:
                    seen.add(x.id)
                    stack += [d for d in definitions(pre, x.id) if isinstance(d, ast.AST)]
        missing = sorted(b for b in built if b and b not in looked)
        if not built:
            raise AnalysisError(f"preprocess: {ctor}(…) construction not found")
        if missing:
            check.violated("C15-R7", key, f"under `{unparse(guards[0].test)[:70]}` the list built by an earlier call is kept, but its entries were constructed from {missing}, which the "
                           f"condition does not look at: after those settings change (e.g. new scan directions) the knots follow the new geometry while the kept "
                           f"{ctor}s still resample along the old one", mod.line(guards[0]), definite=True)
        else:
            raise AnalysisError(f"preprocess: {attr} is kept under a condition covering all constructor inputs — equivalence not decided")


def _add_terms(e: ast.AST) -> list[ast.AST]:
    if isinstance(e, ast.BinOp) and isinstance(e.op, ast.Add):
        return _add_terms(e.left) + _add_terms(e.right)
    return [e]


MANIFEST = {
    "text": "Decides the shape-independence of the initial resampling geometry structurally: the scan-line parameter is "
            "sampled over the column extent and scaled by (columns−1) in both coordinates of the single-knot arm (kinded-axis "
            "clash otherwise); knots are placed at centre (extent−1)/2 of the allocated canvas + fast offsets ∓(cols−1)/2 · "
            "scan_fast + slow offsets ∓(rows−1)/2 · scan_slow with consistent component indices and an orthonormal vector "
            "pair; the 2/3/4-knot arms evaluate one interp1d basis linspace(0,1,k) at the same parameter with the order set by "
            "the count only; the four bilinear weights are the products matching their corner offsets and sum to 1 as a "
            "polynomial identity, indices wrap into the output shape, and the count map passes only mass-conserving steps.",
    "note": "Not decided: that the registration of two identical warped images measures exactly zero (numerics of C13; its structural "
            "rules are borrowed as R4), exact mass conservation of scipy's Gaussian filter, interp1d numerics. Of the fixed-point clause the "
            "structural half is decided (R5: the knot update is a zero-preserving function of the measured shifts; R6: per-image loops use the "
            "image index only as a selector).",
    "technique": "kinded-axis abstract interpretation + polynomial normal forms (weights, knot ends) + sibling-arm agreement + "
                 "zero-preservation abstract interpretation of the knot update",
}
MANIFEST["text"] += (" Fixed-point structure (R5/R6): in align_translation every store into the knots adds a value that an abstract interpretation "
                     "(lattice zero / vanishes-with-the-shifts / non-zero constant / unknown) proves to vanish when the registration results vanish; "
                     "per-image loops of preprocess and align_translation use the image index only inside subscripts.")
MANIFEST["text"] += " Borrowed instances (R4): C13's rules on the NumPy registration helper behind align_translation (cross_correlation_shift, dft_upsample)."
MANIFEST["text"] += ' R2 accepts in-place scaling of the coordinate arrays unless transform_coordinates returns arrays it keeps.'
