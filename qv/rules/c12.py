"""C12 — one aberration surface across polar, Cartesian, gradient and fitted forms (E9, E8, E5)."""
from __future__ import annotations

import ast
import re
from fractions import Fraction

from ..core.repo import (AnalysisError, Repo, call_name, calls_in, definitions, dotted, func_params, is_const,
                         unparse, walk_no_nested_defs)
from ..domains.algnf import NotArithmetic, Poly, Rat, from_ast
from ..domains.codec import flatten_if_chain
from ..domains.termtab import SeriesEval, d_alpha, d_phi

CP = "quantem.diffractive_imaging.complex_probe"
DU = "quantem.diffractive_imaging.direct_ptycho_utils"
VAL = "quantem.core.utils.validators"
PM = "quantem.diffractive_imaging.probe_models"

EXPLANATION = (
    "the hand-written aberration series are converted into term tables (rational normal forms over "
    "alpha, pi, wavelength, coefficient symbols and cos/sin[m:phi_nm] atoms): the surface equals the "
    "series the naming scheme prescribes for all 14 magnitude symbols, the analytic gradients equal "
    "wavelength × the symbolic derivatives of that very table, the Cartesian combination is the "
    "rotation of (radial, azimuthal); basis, conversions, label parser and symbol tables are checked "
    "for role agreement; 'defocus' reaches its negating arm first everywhere; the polar decomposition "
    "used by the fit satisfies u·p = U S Vh by non-commutative reduction"
)


def _sym_nm(sym: str):
    m = re.fullmatch(r"(C|phi)(\d)(\d)", sym)
    if not m:
        raise AnalysisError(f"symbol {sym} does not follow the C/phi{{n}}{{m}} scheme")
    return m.group(1), int(m.group(2)), int(m.group(3))


def run(check, repo: Repo) -> None:
    mod = repo.module(CP)
    check.analysed(f"{CP}:aberration_surface", f"{CP}:aberration_surface_polar_gradients",
                   f"{CP}:aberration_surface_cartesian_gradients", f"{CP}:aberration_surface_cartesian_basis",
                   f"{CP}:parse_cartesian_aberration_label", f"{CP}:polar_to_cartesian_aberrations",
                   f"{CP}:cartesian_to_polar_aberrations", f"{CP}:merge_aberration_coefficients",
                   f"{CP}:standardize_aberration_coefs", f"{VAL}:validate_aberration_coefficients",
                   f"{PM}:ProbeBase.probe_params@setter", f"{PM}:ProbeBase.check_probe_params",
                   f"{DU}:fit_aberrations_from_shifts", f"{DU}:_torch_polar")
    _, symnode = repo.module_assign(CP, "POLAR_SYMBOLS")
    _, aliasnode = repo.module_assign(CP, "POLAR_ALIASES")
    symbols = tuple(ast.literal_eval(symnode))
    aliases = dict(ast.literal_eval(aliasnode))
    mags = [s for s in symbols if s.startswith("C")]
    check.floor("polar magnitude symbols", len(mags), 14)

    # ---- R4 tables ---------------------------------------------------------------------------------
    bad = []
    for s in symbols:
        kind, n, m = _sym_nm(s)
        if not (0 <= m <= n + 1 and (m - (n + 1)) % 2 == 0) or (kind == "phi" and m == 0):
            bad.append(s)
        if kind == "C" and m > 0 and f"phi{n}{m}" not in symbols:
            bad.append(f"{s} lacks phi{n}{m}")
        if kind == "phi" and f"C{n}{m}" not in symbols:
            bad.append(f"{s} lacks C{n}{m}")
    check.decide(not bad, "C12-R4", "POLAR_SYMBOLS obey the parity rule m ≡ n+1 (mod 2), 0 ≤ m ≤ n+1, with paired angles", "", mod.line(symnode),
                 fail_detail=f"symbols violating the scheme: {bad}")
    check.decide(all(v in symbols for v in aliases.values()), "C12-R4", "POLAR_ALIASES map onto polar symbols", "", mod.line(aliasnode),
                 fail_detail=f"alias targets not in POLAR_SYMBOLS: {[v for v in aliases.values() if v not in symbols]}")
    vmod, vfn = repo.func(f"{VAL}:validate_aberration_coefficients")
    copies = {}
    for n in ast.walk(vfn):
        if isinstance(n, ast.Assign) and isinstance(n.targets[0], ast.Name) and n.targets[0].id in ("POLAR_SYMBOLS", "POLAR_ALIASES"):
            copies[n.targets[0].id] = ast.literal_eval(n.value)
    if copies:
        ok = tuple(copies.get("POLAR_SYMBOLS", symbols)) == symbols and dict(copies.get("POLAR_ALIASES", aliases)) == aliases
        check.decide(ok, "C12-R4", "validators' private copies of POLAR_SYMBOLS / POLAR_ALIASES equal complex_probe's", "", vmod.line(vfn),
                     fail_detail="the two copies of the naming tables differ: a coefficient accepted by one function is rejected or "
                                 "renamed differently by the other")
    dmod, presets = repo.module_assign(DU, "ABERRATION_PRESETS")
    pre = ast.literal_eval(presets)
    want_all = []
    for s in mags:
        _, n, m = _sym_nm(s)
        want_all += [s] if m == 0 else [f"{s}_a", f"{s}_b"]
    check.decide(sorted(pre.get("all", [])) == sorted(want_all), "C12-R4", "ABERRATION_PRESETS['all'] is the Cartesian image of POLAR_SYMBOLS", "",
                 dmod.line(presets), fail_detail=f"difference: {sorted(set(pre.get('all', [])) ^ set(want_all))}")
    sub_ok = all(set(v) <= set(want_all) for v in pre.values())
    check.decide(sub_ok, "C12-R4", "every aberration preset uses labels of the Cartesian scheme", "", dmod.line(presets),
                 fail_detail="a preset contains a label outside the scheme")

    # ---- R1 surface term table -------------------------------------------------------------------
    _, sfn = repo.func(f"{CP}:aberration_surface")
    S = SeriesEval(sfn).run()
    chi = S.returns[0]
    expected = Rat.const(0)
    pi, lam, alpha = Rat.sym("pi"), Rat.sym("wavelength"), Rat.sym("alpha")
    per_symbol = {}
    for s in mags:
        _, n, m = _sym_nm(s)
        term = Rat.const(Fraction(2, n + 1)) * pi / lam * Rat.sym(s)
        for _ in range(n + 1):
            term = term * alpha
        if m:
            term = term * Rat.sym(f"cos[{m}:phi{n}{m}]")
        per_symbol[s] = term
        expected = expected + term
    diff = (chi - expected)
    for s in mags:
        # isolate the monomials carrying this coefficient
        got = Poly({k: v for k, v in (chi.n).t.items() if any(sym == s for sym, _ in k)})
        want = Poly({k: v for k, v in (per_symbol[s].n * chi.d).t.items()})
        # compare got/chi.d with per_symbol: got * per_symbol.d == per_symbol.n * chi.d
        ok = (got * per_symbol[s].d - per_symbol[s].n * chi.d).is_zero()
        _, n, m = _sym_nm(s)
        check.decide(ok, "C12-R1", f"aberration_surface: term of {s} = (2π/λ)·α^{n + 1}/{n + 1}·{s}" + (f"·cos({m}(φ−φ{n}{m}))" if m else ""),
                     "", mod.line(sfn),
                     fail_detail=f"the {s} term of the surface evaluates to ({got})/({chi.d}); the naming scheme prescribes "
                                 f"prefactor 1/{n + 1}, radial power {n + 1}, multiplier {m}, phase phi{n}{m}, scale 2π/λ")
    check.decide(diff.is_zero(), "C12-R1", "aberration_surface: no terms besides the 14 of the naming scheme", "", mod.line(sfn),
                 fail_detail=f"surface − scheme = {diff.n}")
    # guards
    for g, used in S.guards:
        # only a missing *magnitude* drops a term: a block entered with its angle alone multiplies by a zero magnitude either way
        missing = sorted((set(used) & set(mags)) - set(g))
        extra = sorted(set(g) - set(symbols))
        check.decide(not missing and not extra, "C12-R1", f"aberration_surface: guard {g[:2]}… lists every magnitude of its block", "", mod.line(sfn),
                     fail_detail=f"magnitudes used in the block but absent from its guard: {missing} (a surface given only by them is "
                                 f"silently dropped); unknown symbols in the guard: {extra}", definite=bool(missing))
    check.floor("surface guard blocks", len(S.guards), 5)

    # ---- R2 gradient tables = wavelength × symbolic derivative of the surface table ------------------
    _, gfn = repo.func(f"{CP}:aberration_surface_polar_gradients")
    G = SeriesEval(gfn).run()
    if len(G.returns) != 2:
        raise AnalysisError("aberration_surface_polar_gradients: expected two return values")
    gk, gphi = G.returns
    # chi = chi.n / chi.d with chi.d free of alpha and trig atoms
    if any(sym == "alpha" or sym.startswith(("cos[", "sin[")) for sym in chi.d.symbols()):
        raise AnalysisError("surface denominator depends on alpha/phi")
    want_k = Rat(d_alpha(chi.n), chi.d) * lam
    want_phi = Rat(d_phi(chi.n), chi.d * Poly.sym("alpha")) * lam
    check.decide(gk.equals(want_k), "C12-R2", "polar gradients: radial component = λ·∂χ/∂α of the surface table", "", mod.line(gfn),
                 fail_detail=f"radial gradient − λ·∂χ/∂α = {(gk - want_k).n}")
    check.decide(gphi.equals(want_phi), "C12-R2", "polar gradients: azimuthal component = λ·(1/α)·∂χ/∂φ of the surface table", "", mod.line(gfn),
                 fail_detail=f"azimuthal gradient − λ·(1/α)·∂χ/∂φ = {(gphi - want_phi).n}: the analytic gradient used for parallax "
                             f"shifts is not the gradient of the surface for the listed terms")
    for g, used in G.guards:
        missing = sorted((set(used) & set(mags)) - set(g))
        check.decide(not missing, "C12-R2", f"polar gradients: guard {g[:2]}… lists every magnitude of its block", "", mod.line(gfn),
                     fail_detail=f"magnitudes used in the block but absent from its guard: {missing}: for a coefficient set that carries only "
                                 f"them the surface has the term and the analytic gradient returns zero for it", definite=bool(missing))
    # Cartesian combination
    _, cfn = repo.func(f"{CP}:aberration_surface_cartesian_gradients")
    dx = [x for x in definitions(cfn, "dchi_dx") if isinstance(x, ast.AST)]
    dy = [x for x in definitions(cfn, "dchi_dy") if isinstance(x, ast.AST)]
    ok = False
    if len(dx) == 1 and len(dy) == 1:
        env = {}
        for nm in ("cos_phi", "sin_phi"):
            dd = [x for x in definitions(cfn, nm) if isinstance(x, ast.AST)]
            if len(dd) == 1 and isinstance(dd[0], ast.Call) and call_name(dd[0]) in ("torch.cos", "torch.sin") and unparse(dd[0].args[0]) == "phi":
                env[nm] = Rat.sym("c" if call_name(dd[0]).endswith("cos") else "s")
        try:
            ex, ey = from_ast(dx[0], env), from_ast(dy[0], env)
            c, s, r, a = Rat.sym("c"), Rat.sym("s"), Rat.sym("dchi_dk"), Rat.sym("dchi_dphi")
            ok = ex.equals(c * r - s * a) and ey.equals(s * r + c * a)
        except NotArithmetic:
            ok = False
    unpack = any(isinstance(n, ast.Assign) and isinstance(n.targets[0], ast.Tuple) and [unparse(e) for e in n.targets[0].elts] == ["dchi_dk", "dchi_dphi"]
                 and isinstance(n.value, ast.Call) and call_name(n.value) == "aberration_surface_polar_gradients" for n in ast.walk(cfn))
    rets = [unparse(n.value) for n in ast.walk(cfn) if isinstance(n, ast.Return)]
    check.decide(ok and unpack and rets == ["(dchi_dx, dchi_dy)"], "C12-R2", "Cartesian gradients = rotation (cos,−sin; sin,cos) of (radial, azimuthal)", "", mod.line(cfn),
                 fail_detail="dchi_dx/dchi_dy are not cosφ·∂r − sinφ·∂φ and sinφ·∂r + cosφ·∂φ of the polar gradients (in that order)")

    # ---- R3 basis and conversions ------------------------------------------------------------------
    _, bfn = repo.func(f"{CP}:aberration_surface_cartesian_basis")
    d = {k: [unparse(x) for x in definitions(bfn, k) if isinstance(x, ast.AST)] for k in ("k", "pref", "radial")}
    ok = d["pref"] == ["k / (n + 1)"] and d["radial"] == ["alpha ** (n + 1)"]
    try:
        kk = from_ast([x for x in definitions(bfn, "k") if isinstance(x, ast.AST)][0], {"math.pi": Rat.sym("pi")})
        ok = ok and kk.equals(Rat.const(2) * Rat.sym("pi") / Rat.sym("wavelength"))
    except (NotArithmetic, IndexError):
        ok = False
    check.decide(ok, "C12-R3", "Cartesian basis: prefactor (2π/λ)/(n+1) and radial power α^(n+1)", str(d), mod.line(bfn),
                 fail_detail=f"basis uses k={d['k']}, pref={d['pref']}, radial={d['radial']}")
    chain = next((n for n in ast.walk(bfn) if isinstance(n, ast.If) and "kind" in unparse(n.test)), None)
    if chain is None:
        raise AnalysisError("cartesian basis: kind dispatch not found")
    arms, els = flatten_if_chain(chain)
    got = {}
    for t, body in arms:
        if "None" in unparse(t):
            key = "None"
        elif isinstance(t, ast.Compare) and isinstance(t.comparators[0], ast.Constant):
            key = t.comparators[0].value
        else:
            raise AnalysisError(f"cartesian basis: kind test `{unparse(t)}` not understood (expected `kind is None` / `kind == '<letter>'`)")
        app = [c for s in body for c in ast.walk(s) if isinstance(c, ast.Call) and (call_name(c) or "").endswith(".append")]
        got[key] = unparse(app[0].args[0]) if app else "?"
    want = {"None": "pref * radial", "a": "pref * radial * torch.cos(m * phi)", "b": "pref * radial * torch.sin(m * phi)"}
    check.decide(got == want and any(isinstance(x, ast.Raise) for s in els for x in ast.walk(s)), "C12-R3",
                 "Cartesian basis: kind None → radial, 'a' → cos(mφ), 'b' → sin(mφ), else raises", str(got), mod.line(chain),
                 fail_detail=f"basis arms are {got}")
    unp = any(isinstance(n, ast.Assign) and isinstance(n.targets[0], ast.Tuple) and [unparse(e) for e in n.targets[0].elts] == ["n", "m", "kind"]
              and isinstance(n.value, ast.Call) and call_name(n.value) == "parse_cartesian_aberration_label" for n in ast.walk(bfn))
    check.decide(unp, "C12-R3", "Cartesian basis unpacks the parser result as (n, m, kind)", "", mod.line(bfn), fail_detail="the parser result is unpacked in another order")
    _, pfn = repo.func(f"{CP}:parse_cartesian_aberration_label")
    pd = {k: [unparse(x) for x in definitions(pfn, k) if isinstance(x, ast.AST)] for k in ("n", "m", "kind")}
    rets = [unparse(n.value) for n in ast.walk(pfn) if isinstance(n, ast.Return)]
    ok = pd["n"] == ["int(base[1])"] and pd["m"] == ["int(base[2])"] and rets == ["(n, m, kind)"] and pd["kind"] == ["rest[0] if rest else None"]
    check.decide(ok, "C12-R3", "label parser: n = 2nd character, m = 3rd character, kind = suffix or None", str(pd), mod.line(pfn),
                 fail_detail=f"parser reads {pd}, returns {rets}")
    # conversions
    _, p2c = repo.func(f"{CP}:polar_to_cartesian_aberrations")
    _, c2p = repo.func(f"{CP}:cartesian_to_polar_aberrations")

    def loop_sig(fn):
        outs = []
        for n in walk_no_nested_defs(fn):
            if isinstance(n, ast.For):
                outs.append(unparse(n.iter))
        md = [unparse(x) for x in definitions(fn, "m") if isinstance(x, ast.AST)]
        nm = [unparse(x) for x in definitions(fn, "name") if isinstance(x, ast.AST)]
        skip = [unparse(n.test) for n in ast.walk(fn) if isinstance(n, ast.If) and any(isinstance(s, ast.Continue) for s in n.body)]
        return outs, md, nm, skip
    s1, s2 = loop_sig(p2c), loop_sig(c2p)
    want_sig = (["range(1, max_order + 1)", "range(0, n + 2)"], ["2 * s - n - 1"], ["f'C{n}{m}'"], ["m < 0"])

    def split_skips(sig, src_names):
        """(signature without membership skips, is the conversion SPARSE — does it leave out labels that are absent from its input?)"""
        outs, md, nm, skip = sig
        member = [t for t in skip if any(t.endswith(f" not in {nm_}") for nm_ in src_names)]
        return (outs, md, nm, [t for t in skip if t not in member]), bool(member)
    s1n, p2c_sparse = split_skips(s1, ("polar",))
    s2n, _c2p_sparse = split_skips(s2, ("cart",))
    check.decide(s1n == s2n == want_sig, "C12-R3", "both conversions enumerate (n, m) with the same generator m = 2s−n−1 ≥ 0", str(s1), mod.line(p2c),
                 fail_detail=f"index generators differ or deviate from the scheme: {s1} vs {s2}")
    stores = {unparse(n.targets[0]): unparse(n.value) for n in ast.walk(p2c) if isinstance(n, ast.Assign) and isinstance(n.targets[0], ast.Subscript)}
    env_names = {k: [unparse(x) for x in definitions(p2c, k) if isinstance(x, ast.AST)] for k in ("phi", "C")}
    ok = stores.get("cart[f'{name}_a']") == "C * torch.cos(m * phi)" and stores.get("cart[f'{name}_b']") == "C * torch.sin(m * phi)" \
        and stores.get("cart[name]") == "polar[name]" and env_names["phi"] == ["polar[f'phi{n}{m}']"] and env_names["C"] == ["polar[name]"]
    check.decide(ok, "C12-R3", "polar→Cartesian: a = C·cos(m·φ_nm), b = C·sin(m·φ_nm), m = 0 copied", str(stores), mod.line(p2c),
                 fail_detail=f"conversion stores {stores} with {env_names}")
    stores = {unparse(n.targets[0]): n.value for n in ast.walk(c2p) if isinstance(n, ast.Assign) and isinstance(n.targets[0], ast.Subscript)}
    env_names = {k: [unparse(x) for x in definitions(c2p, k) if isinstance(x, ast.AST)] for k in ("Ca", "Cb")}
    mag = stores.get("polar[name]")
    ang = stores.get("polar[f'phi{n}{m}']")
    # two stores to polar[name] (m == 0 copy and magnitude): collect all
    mags_ = [unparse(n.value) for n in ast.walk(c2p) if isinstance(n, ast.Assign) and unparse(n.targets[0]) == "polar[name]"]
    ok_mag = sorted(mags_) == sorted(["cart[name]", "torch.sqrt(Ca ** 2 + Cb ** 2)"])
    ok_ang = ang is not None and unparse(ang) == "torch.atan2(Cb, Ca) / m"
    ok_env = env_names["Ca"] == ["cart[f'{name}_a']"] and env_names["Cb"] == ["cart[f'{name}_b']"]
    check.decide(ok_mag and ok_env, "C12-R3", "Cartesian→polar: C = sqrt(a² + b²), m = 0 copied", str(mags_), mod.line(c2p),
                 fail_detail=f"magnitudes {mags_}, components {env_names}")
    check.decide(ok_ang and ok_env, "C12-R3", "Cartesian→polar: φ_nm = atan2(b, a) / m exactly (argument order, divisor, no re-wrapping)",
                 unparse(ang) if ang is not None else "", mod.line(ang if ang is not None else c2p),
                 fail_detail=f"φ_nm = `{unparse(ang) if ang is not None else '?'}`: atan2(b, a)/m is the only angle whose (C, φ) pair reproduces (a, b) "
                             f"for odd m — wrapping it (e.g. modulo π) or swapping the arguments negates/rotates the term")
    # merge
    _, mg = repo.func(f"{CP}:merge_aberration_coefficients")
    txt = unparse(mg)
    ok = "polar_to_cartesian_aberrations(init_coefs_polar)" in txt and "cartesian_to_polar_aberrations(updated_coefs_cartesian)" in txt
    # how the deltas are folded in.  Two sites cooperate: a merge that only visits the keys of the converted initial guess drops every fitted component
    # the guess does not contain — unless the polar→Cartesian conversion is dense (emits every label up to max_order).
    form = None
    for n_ in walk_no_nested_defs(mg):
        if isinstance(n_, ast.For) and "delta_coefs_cartesian" in unparse(n_.iter):
            body_txt = [unparse(x) for x in n_.body]
            ifs = [x for x in n_.body if isinstance(x, ast.If) and " in updated_coefs_cartesian" in unparse(x.test)]
            adds = any("updated_coefs_cartesian[k] + v" in t or "v + updated_coefs_cartesian[k]" in t or ("updated_coefs_cartesian.get(k" in t and "+ v" in t) for t in body_txt)
            if any("+= v" in t for t in body_txt):
                form = "in-place"  # `d[k] += v` adds into the tensor object the conversion copied by reference from the caller's initial coefficients (m = 0 entries)
            elif not adds:
                form = None
            elif ifs and not ifs[0].orelse and "not in" not in unparse(ifs[0].test):
                form = "over-delta-no-insert"
            else:
                form = "over-delta-insert"
        elif isinstance(n_, ast.For) and unparse(n_.iter).startswith("updated_coefs_cartesian") and "delta_coefs_cartesian" not in unparse(n_.iter):
            bt_ = " ".join(unparse(x) for x in n_.body)
            if "updated_coefs_cartesian[k] =" in bt_ and "delta_coefs_cartesian.get(k" in bt_ and "+" in bt_:
                form = "over-init"
        elif isinstance(n_, ast.Assign) and isinstance(n_.value, ast.DictComp) and dotted(n_.targets[0]) == "updated_coefs_cartesian":
            it_ = unparse(n_.value.generators[0].iter)
            vt_ = unparse(n_.value.value)
            if it_.startswith("updated_coefs_cartesian") and "delta_coefs_cartesian.get(k" in vt_ and "+" in vt_:
                form = "over-init"
    if form == "in-place":
        check.violated("C12-R3", "merge: deltas are added in the Cartesian representation and converted back",
                       "the deltas are added in place (`+=`): the m = 0 entries of the converted dict are the caller's own coefficient tensors, so merging modifies the initial guess "
                       "as a side effect — a second merge from the same guess starts from the wrong surface", mod.line(mg))
    elif not ok or form is None:
        check.violated("C12-R3", "merge: deltas are added in the Cartesian representation and converted back", "merge does not convert → add → convert back", mod.line(mg))
    elif form == "over-delta-insert" or not p2c_sparse:
        check.holds("C12-R3", "merge: deltas are added in the Cartesian representation and converted back", f"{form}; polar→Cartesian is {'sparse' if p2c_sparse else 'dense'}", mod.line(mg))
    else:
        check.violated("C12-R3", "merge: deltas are added in the Cartesian representation and converted back",
                       f"the merge visits only the keys of the converted initial guess ({form}) while polar_to_cartesian_aberrations leaves out labels that are absent from its input: a "
                       f"fitted component the initial guess does not contain (e.g. C21_a on top of a defocus-only guess) is silently dropped — the merged surface is not the sum",
                       mod.line(mg), definite=True)

    # ---- R5 defocus alias --------------------------------------------------------------------------
    n_sites = 0
    sites = [(mod, repo.func(f"{CP}:standardize_aberration_coefs")[1], "standardize_aberration_coefs"),
             (vmod, repo.func(f"{VAL}:validate_aberration_coefficients.set_aberrations.process_polar_params")[1], "validate_aberration_coefficients"),
             (repo.module(PM), repo.func(f"{PM}:ProbeBase.probe_params@setter.set_aberrations.process_polar_params")[1], "ProbeBase.probe_params")]
    alias_first_wins: list = []
    for m_, fn, label in sites:
        chains = [n for n in ast.walk(fn) if isinstance(n, ast.If) and not (isinstance(getattr(n, "_parent", None), ast.If) and n in getattr(n._parent, "orelse", []))]
        chain = None
        for c in chains:
            arms, _ = flatten_if_chain(c)
            if any("'defocus'" in unparse(t) for t, _ in arms):
                chain = c
        if chain is None:
            check.violated("C12-R5", f"{label}: explicit 'defocus' arm", "no arm tests for the key 'defocus': it is resolved through the generic alias table "
                           "and stored WITHOUT the sign flip (C10 = −defocus)", m_.line(fn))
            continue
        n_sites += 1
        arms, _ = flatten_if_chain(chain)
        idx_def = next(i for i, (t, _) in enumerate(arms) if "'defocus'" in unparse(t))
        # a coefficient of exactly 0 is a coefficient (an in-focus override must replace a stored defocus): the "not given" arm tests `is None`
        for t_, body_ in arms:
            if len(body_) == 1 and isinstance(body_[0], (ast.Continue, ast.Pass)):
                isnone = isinstance(t_, ast.Compare) and len(t_.ops) == 1 and isinstance(t_.ops[0], ast.Is) and is_const(t_.comparators[0], None)
                truthy = (isinstance(t_, ast.UnaryOp) and isinstance(t_.op, ast.Not) and isinstance(t_.operand, ast.Name)) or \
                    (isinstance(t_, ast.Compare) and len(t_.ops) == 1 and isinstance(t_.ops[0], ast.Eq) and is_const(t_.comparators[0], 0))
                check.decide(isnone, "C12-R5", f"{label}: a coefficient is skipped only when it is None (0 is a value)", unparse(t_), m_.line(t_), definite=truthy,
                             fail_detail=f"`{unparse(t_)}` also skips a coefficient of exactly 0: {{'defocus': 0.0}} standardises to {{}} and an in-focus override leaves the stored C10 in effect "
                                         f"(C10 ≠ −defocus)")
        idx_alias = [i for i, (t, _) in enumerate(arms) if "POLAR_ALIASES" in unparse(t) or "canonical in POLAR_SYMBOLS" in unparse(t)]
        first = not idx_alias or idx_def < min(idx_alias)
        check.decide(first, "C12-R5", f"{label}: the 'defocus' arm is reached before the generic alias arm", "", m_.line(arms[idx_def][0]),
                     fail_detail="'defocus' is also a key of POLAR_ALIASES; the generic alias arm comes first and stores C10 = +defocus")
        body = arms[idx_def][1]
        st = [s for s in body if isinstance(s, ast.Assign) and isinstance(s.targets[0], ast.Subscript) and is_const(s.targets[0].slice, "C10")]
        neg = bool(st) and isinstance(st[0].value, ast.UnaryOp) and isinstance(st[0].value.op, ast.USub)
        if not st:
            # `d.setdefault("C10", −defocus)`: the same value, but an explicit C10 already in the dict wins over the alias.  Equivalent for every dict that does not give both;
            # it matters only where a caller validates stored canonical symbols MERGED with a raw user override (then the override's alias loses) — see the coupled rule below
            sd = [c for s_ in body for c in ast.walk(s_) if isinstance(c, ast.Call) and isinstance(c.func, ast.Attribute) and c.func.attr == "setdefault" and len(c.args) == 2 and is_const(c.args[0], "C10")]
            if sd:
                neg = isinstance(sd[0].args[1], ast.UnaryOp) and isinstance(sd[0].args[1].op, ast.USub)
                st = [ast.Expr(value=sd[0])]
                alias_first_wins.append(label)
        check.decide(neg, "C12-R5", f"{label}: 'defocus' is stored as C10 = −defocus", unparse(st[0]) if st else "", m_.line(arms[idx_def][0]),
                     fail_detail=f"the defocus arm stores `{unparse(st[0]) if st else '?'}`")
    check.floor("alias-resolving sites", n_sites, 3)
    # coupled: the hyper-parameter accessor of direct ptychography.  `out.update(validate(override))` canonicalises the override on its own; `out.update(override);
    # validate(out)` hands the validator a dict that contains BOTH the stored C10 and the user's alias — sound only while the validator lets the later entry win.
    DPm = "quantem.diffractive_imaging.direct_ptychography"
    if repo.has(f"{DPm}:HyperparameterState.current_aberrations"):
        dm_, ca_ = repo.func(f"{DPm}:HyperparameterState.current_aberrations")
        merged_then_validated = any(isinstance(r, ast.Return) and isinstance(r.value, ast.Call) and (call_name(r.value) or "").endswith("validate_aberration_coefficients")
                                    for r in ast.walk(ca_)) and any(isinstance(c.func, ast.Attribute) and c.func.attr == "update" and c.args and isinstance(c.args[0], ast.Name)
                                                                   and c.args[0].id in func_params(ca_) for c in calls_in(ca_))
        key_ = "current_aberrations × validate_aberration_coefficients: an alias given in an override replaces the stored coefficient"
        if merged_then_validated and "validate_aberration_coefficients" in alias_first_wins:
            check.violated("C12-R5", key_, "the override is merged raw into the stored coefficients and the merged dict validated once, while the validator writes aliases with setdefault "
                           "(an explicit symbol wins): `defocus=d` in an override is silently ignored whenever the state already holds C10 — the surface used is not the one requested",
                           dm_.line(ca_), definite=True)
        else:
            check.holds("C12-R5", key_, f"merged-then-validated: {merged_then_validated}; validator first-wins: {'validate_aberration_coefficients' in alias_first_wins}", dm_.line(ca_))
    pm, cpp = repo.func(f"{PM}:ProbeBase.check_probe_params")
    inv = [n for n in ast.walk(cpp) if isinstance(n, ast.Assign) and "C10" in unparse(n.value)]
    ok = bool(inv) and all(("-1 *" in unparse(n.value) or unparse(n.value).startswith("-")) for n in inv)
    check.decide(ok, "C12-R5", "ProbeBase.check_probe_params: defocus recovered from C10 with the sign flipped", "", pm.line(cpp),
                 fail_detail="the inverse site derives defocus from C10 without negation")

    # ---- R7 the cross-correlation fit seeds its reconstruction with the caller's guess only --------------------------------------------
    # the shifts handed to the fit are (measured − initial_shifts) with initial_shifts computed from the caller's guess alone; a seeding
    # reconstruct() that still sees the previous optimum pre-shifts the images by coefficients the bookkeeping does not know about
    from ..core.cfg import CFG
    DPm = "quantem.diffractive_imaging.direct_ptychography"
    dpmod, fcc = repo.func(f"{DPm}:DirectPtychography.fit_hyperparameters_cross_correlation")
    check.analysed(f"{DPm}:DirectPtychography.fit_hyperparameters_cross_correlation")
    fcfg = CFG(fcc)
    clears = [n for c in calls_in(fcc) if isinstance(c.func, ast.Attribute) and c.func.attr == "clear_optimized" for n in fcfg.node_containing(c)]
    recons = [n for c in calls_in(fcc) if (call_name(c) or "") == "self.reconstruct" for n in fcfg.node_containing(c)]
    if not recons:
        raise AnalysisError("fit_hyperparameters_cross_correlation: seeding self.reconstruct(…) call not found")
    first = min(recons, key=lambda n: fcfg.nodes[n].lineno)
    ok = bool(clears) and any(fcfg.dominates(c_, first) for c_ in clears)
    check.decide(ok, "C12-R7", "fit_hyperparameters_cross_correlation clears the previous optimum before the seeding reconstruction", "", dpmod.line(fcfg.nodes[first].stmt),
                 fail_detail="clear_optimized() does not dominate the seeding self.reconstruct(…): on a second fit the images are pre-shifted with the stale optimised coefficients while "
                             "initial_shifts only accounts for the caller's guess — the fit no longer returns the values that generated the shifts")

    # ---- R6 fit: polar decomposition algebra and coefficient extraction -------------------------------
    _, tp = repo.func(f"{DU}:_torch_polar")
    _rule_polar(check, repo.module(DU), tp)
    _, fit = repo.func(f"{DU}:fit_aberrations_from_shifts")
    d = {}
    for k in ("a", "b", "c", "C10", "C12a", "C12b"):
        dd = [x for x in definitions(fit, k) if isinstance(x, ast.AST)]
        d[k] = dd[0] if len(dd) == 1 else None
    ok = d["a"] is not None and unparse(d["a"]) == "M_aberration[0, 0]" and unparse(d["c"]) == "M_aberration[1, 1]"
    try:
        env = {"M_aberration[1, 0]": Rat.sym("B"), "M_aberration[0, 1]": Rat.sym("B")}
        b = from_ast(d["b"], env)
        # matrix of the quadratic surface: a = C10 + C12a, c = C10 − C12a, b = C12b
        env2 = {"a": Rat.sym("X10") + Rat.sym("X12a"), "c": Rat.sym("X10") - Rat.sym("X12a"), "b": Rat.sym("X12b")}
        ok = ok and b.equals(Rat.sym("B")) and from_ast(d["C10"], env2).equals(Rat.sym("X10")) \
            and from_ast(d["C12a"], env2).equals(Rat.sym("X12a")) and from_ast(d["C12b"], env2).equals(Rat.sym("X12b"))
    except (NotArithmetic, TypeError):
        ok = False
    check.decide(ok, "C12-R6", "fit: (C10, C12a, C12b) are read off the symmetric matrix [[C10+C12a, C12b],[C12b, C10−C12a]]", "", repo.module(DU).line(fit),
                 fail_detail="C10/C12a/C12b are not ((a+c)/2, (a−c)/2, b) of the fitted symmetric matrix")
    txt = unparse(fit)
    ok = "C12 = torch.sqrt(C12a ** 2 + C12b ** 2)" in txt and "phi12 = torch.arctan2(C12b, C12a) / 2" in txt
    check.decide(ok, "C12-R6", "fit: C12 = |(C12a, C12b)|, φ12 = atan2(C12b, C12a)/2 (same convention as the conversions)", "", repo.module(DU).line(fit),
                 fail_detail="C12/phi12 are not sqrt(a²+b²) and atan2(b, a)/2")
    ok = "basis = kvec * wavelength" in txt and "torch.linalg.lstsq(basis" in txt and "M_rotation, M_aberration = _torch_polar(M)" in txt
    check.decide(ok, "C12-R6", "fit: shifts are regressed on α = k·λ and the matrix is split as rotation × aberration", "", repo.module(DU).line(fit),
                 fail_detail="the fit does not regress on k·wavelength or does not unpack (rotation, aberration) from _torch_polar")


def _rule_polar(check, dmod, fn) -> None:
    """u @ p must reduce to U·S·Vh (the SVD of the argument) with Vh·V = I, U^H·U = I."""
    svd = None
    for n in ast.walk(fn):
        if isinstance(n, ast.Assign) and isinstance(n.value, ast.Call) and (call_name(n.value) or "").endswith("linalg.svd") and isinstance(n.targets[0], ast.Tuple):
            svd = [e.id for e in n.targets[0].elts]
    if svd is None or len(svd) != 3:
        raise AnalysisError("_torch_polar: SVD unpacking not found")
    U, Sg, Vh = svd

    arg = func_params(fn)[0]
    full = not any(kw.arg == "full_matrices" and is_const(kw.value, False) for n in ast.walk(fn) if isinstance(n, ast.Call) and (call_name(n) or "").endswith("linalg.svd") for kw in n.keywords)
    if not full:
        raise AnalysisError("_torch_polar: reduced SVD (full_matrices=False) — U/Vh are not known to be unitary")

    def adj(seq: list[str]) -> list[str]:
        return [a if a == "S" else (a[:-2] if a.endswith("^H") else a + "^H") for a in reversed(seq)]

    def adjoint_of(e: ast.AST):
        """X when e is X^H in one of torch's spellings"""
        if isinstance(e, ast.Attribute) and e.attr in ("mH", "H"):
            return e.value
        if isinstance(e, ast.Call) and isinstance(e.func, ast.Attribute) and not e.args and e.func.attr == "adjoint":
            return e.func.value
        if isinstance(e, ast.Call) and isinstance(e.func, ast.Attribute) and not e.args and e.func.attr in ("conj", "conj_physical"):
            x = e.func.value
            if isinstance(x, ast.Attribute) and x.attr in ("T", "mT"):
                return x.value
            if isinstance(x, ast.Call) and isinstance(x.func, ast.Attribute) and x.func.attr == "transpose" and [unparse(a) for a in x.args] in (["-2", "-1"], ["-1", "-2"], ["0", "1"], ["1", "0"]):
                return x.func.value
        if isinstance(e, ast.Attribute) and e.attr in ("T", "mT") and isinstance(e.value, ast.Call) and isinstance(e.value.func, ast.Attribute) \
                and e.value.func.attr == "conj" and not e.value.args:
            return e.value.func.value
        return None

    def atoms(e: ast.AST, depth: int = 0) -> list[str]:
        if depth > 8:
            raise AnalysisError("_torch_polar: definition chain too deep")
        if isinstance(e, ast.BinOp) and isinstance(e.op, ast.MatMult):
            return atoms(e.left, depth + 1) + atoms(e.right, depth + 1)
        inner = adjoint_of(e)
        if inner is not None:
            return adj(atoms(inner, depth + 1))
        if isinstance(e, ast.Call) and isinstance(e.func, ast.Attribute) and e.func.attr in ("to", "type", "contiguous", "clone") and not (call_name(e) or "").startswith("torch."):
            return atoms(e.func.value, depth + 1)  # dtype / memory-layout conversions
        if isinstance(e, ast.BinOp) and isinstance(e.op, ast.Mult):
            # broadcasting the vector of singular values: X * S scales the COLUMNS of X (= X·diag S), S[:, None] * X scales the ROWS (= diag S·X)
            def s_form(x):
                while isinstance(x, ast.Call) and isinstance(x.func, ast.Attribute) and x.func.attr in ("to", "type"):
                    x = x.func.value
                if isinstance(x, ast.Name) and x.id == Sg:
                    return "cols"
                if isinstance(x, ast.Subscript) and isinstance(x.value, ast.Name) and x.value.id == Sg:
                    t_ = unparse(x.slice).replace(" ", "")
                    return {"(slice(None,None,None),None)": "rows", ":,None": "rows", "None,:": "cols", "...,None": "rows", "None": "cols"}.get(t_)
                if isinstance(x, ast.Call) and isinstance(x.func, ast.Attribute) and x.func.attr == "unsqueeze" and isinstance(x.func.value, ast.Name) and x.func.value.id == Sg and x.args:
                    return {"-1": "rows", "1": "rows", "0": "cols", "-2": "cols"}.get(unparse(x.args[0]))
                return None
            for a_, b_ in ((e.left, e.right), (e.right, e.left)):
                f_ = s_form(b_)
                if f_ is not None:
                    other = atoms(a_, depth + 1)
                    return other + ["S"] if f_ == "cols" else ["S"] + other
        if isinstance(e, ast.Name):
            if e.id in (U, Vh):
                return [e.id]
            if e.id == arg and not definitions(fn, e.id):
                return [U, "S", Vh]  # the argument IS its singular value decomposition
            dd = [x for x in definitions(fn, e.id) if isinstance(x, ast.AST)]
            if len(dd) == 1:
                return atoms(dd[0], depth + 1)
        t = unparse(e)
        if Sg in {n.id for n in ast.walk(e) if isinstance(n, ast.Name)} and "diag" in t:
            return ["S"]
        raise AnalysisError(f"_torch_polar: factor `{t}` not understood")

    rets = [n.value for n in ast.walk(fn) if isinstance(n, ast.Return) and n.value is not None]
    if len(rets) != 1 or not isinstance(rets[0], ast.Tuple) or len(rets[0].elts) != 2:
        raise AnalysisError("_torch_polar: expected `return u, p`")
    u, p = atoms(rets[0].elts[0]), atoms(rets[0].elts[1])

    def reduce(seq):
        out = []
        for a in seq:
            # full SVD of a square matrix: U and Vh are unitary on both sides
            if out and any((out[-1], a) in ((X, X + "^H"), (X + "^H", X)) for X in (U, Vh)):
                out.pop()
            else:
                out.append(a)
        return out
    right = reduce(u + p) == [U, "S", Vh]
    left = reduce(p + u) == [U, "S", Vh]
    sym = p == [Vh + "^H", "S", Vh] or p == [U, "S", U + "^H"]
    check.decide(right, "C12-R6", "_torch_polar: u·p = U·S·Vh (rotation × symmetric factor, the order the fit assumes)", f"u={u} p={p}", dmod.line(fn),
                 fail_detail=f"with u = {u} and p = {p}, u·p does not reduce to the SVD of the argument"
                             + (" (p·u does: this is the LEFT polar factor, whose astigmatism axis is rotated by the rotation angle)" if left else ""))
    check.decide(sym, "C12-R6", "_torch_polar: the second factor is Hermitian by construction", f"p={p}", dmod.line(fn),
                 fail_detail=f"p = {p} is not of the form X S X^H")


MANIFEST = {
    "text": "Decides, symbolically for all angles, wavelengths and coefficient values, the identities that are visible in the "
            "source: the surface series equals the series prescribed by the C{n}{m}/phi{n}{m} naming scheme for all 14 magnitude "
            "symbols (prefactor 1/(n+1), power n+1, multiplier m, phase symbol, 2π/λ) with complete guard tuples; the analytic "
            "polar gradients equal λ × the symbolic ∂/∂α and (1/α)∂/∂φ of that very table and the Cartesian gradients are their "
            "rotation; basis, polar↔Cartesian conversions (incl. atan2(b,a)/m with no re-wrapping), label parser, the two "
            "copies of the symbol tables and the presets agree; 'defocus' is negated before the generic alias arm at all three "
            "sites and un-negated at the inverse site; the fit's polar decomposition satisfies u·p = U S Vh and reads "
            "(C10, C12a, C12b) off the right matrix entries.",
    "note": "Not decided: numerical accuracy of the least-squares fit / SVD, identifiability domain. The translation into term "
            "tables is a syntax-directed normal form of one expression family (unrecognised shape → exit 2), not execution.",
    "technique": "term-table extraction + rational/polynomial normal forms + symbolic differentiation of the table (AST)",
}
MANIFEST["text"] += ' The polar-decomposition helper is decided algebraically with the argument read as U·S·Vh, adjoints of products and unitary reductions (right polar factor, Hermitian second factor).'
MANIFEST["text"] += ' Guard rule: only a missing *magnitude* drops a term (an angle alone multiplies a zero magnitude), so guards may omit angles; a missing magnitude is a definite verdict of the series interpreter.'
MANIFEST["text"] += " R5 also: the 'not given' arm of each alias loop tests `is None` (a coefficient of exactly 0 is a value)."
MANIFEST["text"] += ' R3 merge rule is coupled: a merge that visits only the keys of the converted initial guess is a violation only when the polar→Cartesian conversion is sparse (each alone holds).'
MANIFEST["text"] += ' R5 is coupled with HyperparameterState.current_aberrations (validator first-wins ∧ merged-then-validated override).'
