"""C03 — Dataset containers stay coherent under any history (E1, E3, E4, E5)."""
from __future__ import annotations

import ast

from ..core.cfg import CFG
from ..core.repo import (AnalysisError, Repo, call_name, calls_in, definitions, dotted, func_params, is_const,
                         kwarg, names_in, unparse, walk_no_nested_defs, parent)
from ..domains.alias import Aliasing

DS = "quantem.core.datastructures.dataset"
VAL = "quantem.core.utils.validators"
SUBS = [("quantem.core.datastructures.dataset2d", "Dataset2d", 2),
        ("quantem.core.datastructures.dataset3d", "Dataset3d", 3),
        ("quantem.core.datastructures.dataset4d", "Dataset4d", 4),
        ("quantem.core.datastructures.dataset4dstem", "Dataset4dstem", 4)]
STATE = {"_array", "_origin", "_sampling", "_units", "_metadata"}
GETTERS = {"array": "_array", "origin": "_origin", "sampling": "_sampling", "units": "_units",
           "metadata": "_metadata"}
CALIB = {"_origin", "_sampling", "_units"}
OPS = ("pad", "crop", "bin", "fourier_resample")

EXPLANATION = (
    "structural coherence of Dataset decided on the source: calibration setters validate against "
    "self.ndim and the validators raise on mismatch; private calibration writes outside setters are "
    "length-preserving and confined to in-place arms; registry/defaults agree with each registered "
    "dimensionality; on every non-in-place path nothing that may alias the source's storage is "
    "mutated (may-alias analysis); in-place and copying arms update the same fields from the same "
    "definitions and in-place stores come after all reads of the old state; __getitem__ reduces all "
    "calibrations with one kept-axes list and scales sampling at the kept position of the stepped axis"
)


def _inplace_branches(cfg: CFG, flag: str = "modify_in_place") -> tuple[set[int], set[int]]:
    """(branch nodes where the flag is true, branch nodes where it is false)."""
    t_nodes, f_nodes = set(), set()
    for n in cfg.nodes:
        if n.kind != "branch":
            continue
        t = cfg.nodes[n.test]
        if t.kind != "test":
            continue
        e = t.expr
        pol = None
        if isinstance(e, ast.Name) and e.id == flag:
            pol = n.polarity
        elif isinstance(e, ast.UnaryOp) and isinstance(e.op, ast.Not) and dotted(e.operand) == flag:
            pol = not n.polarity
        elif isinstance(e, ast.Compare) and len(e.ops) == 1 and dotted(e.left) == flag and isinstance(e.comparators[0], ast.Constant):
            v = e.comparators[0].value
            if isinstance(e.ops[0], (ast.Is, ast.Eq)):
                pol = n.polarity if v is True else (not n.polarity if v is False else None)
            elif isinstance(e.ops[0], (ast.IsNot, ast.NotEq)):
                pol = (not n.polarity) if v is True else (n.polarity if v is False else None)
        if pol is True:
            t_nodes.add(n.id)
        elif pol is False:
            f_nodes.add(n.id)
    return t_nodes, f_nodes


def _on_inplace_only(cfg: CFG, node: int, tb: set[int]) -> bool:
    return any(cfg.dominates(b, node) for b in tb)


def state_dtype_closure(fn: ast.AST, e: ast.AST, _seen=None) -> bool:
    """Does the expression (through local definitions) read the dtype of the object's CURRENT state (`self.<x>.dtype`, `self.dtype`,
    `getattr(self, …).dtype`)?  A semantic fact about where a conversion target comes from, independent of how the setter is laid out."""
    _seen = _seen if _seen is not None else set()
    for x in ast.walk(e):
        if isinstance(x, ast.Attribute) and x.attr == "dtype":
            b = x.value
            if (dotted(b) or "").startswith("self") :
                return True
            if isinstance(b, ast.Name) and b.id not in _seen:
                _seen.add(b.id)
                for d in definitions(fn, b.id):
                    if isinstance(d, ast.AST) and (any((dotted(y) or "").startswith("self.") for y in ast.walk(d) if isinstance(y, ast.Attribute))
                                                   or any(isinstance(y, ast.Call) and call_name(y) == "getattr" and y.args and dotted(y.args[0]) == "self" for y in ast.walk(d))):
                        return True
        if isinstance(x, ast.Name) and x.id not in _seen:
            _seen.add(x.id)
            for d in definitions(fn, x.id):
                if isinstance(d, ast.AST) and state_dtype_closure(fn, d, _seen):
                    return True
    return False


def calibration_setter_dtype(check, repo: Repo, rule: str, why: str) -> None:
    """The sampling / origin setters store the validated value without converting it to the dtype of the calibration it replaces: computed
    calibrations (sampling·factor, N_in/N_out pitches, shifted origins) are floating point whatever the constructor was given."""
    n = 0
    for prop in ("sampling", "origin"):
        mod, st = repo.func(f"{DS}:Dataset.{prop}@setter")
        for c in calls_in(st):
            if call_name(c) != "validate_ndinfo":
                continue
            n += 1
            dt = kwarg(c, "dtype") or (c.args[3] if len(c.args) > 3 else None)
            key = f"Dataset.{prop} setter: the new calibration is not converted to the dtype of the one it replaces"
            if dt is None or is_const(dt, None):
                check.holds(rule, key, "validate_ndinfo without a dtype", mod.line(c))
            elif state_dtype_closure(st, dt):
                check.violated(rule, key, f"`dtype={unparse(dt)[:40]}` is taken from the current `{prop}`: a dataset constructed with integer calibration truncates every computed "
                               f"calibration installed through the setter (0.5 → 0) — {why}", mod.line(c), definite=True)
            elif unparse(dt) in ("float", "np.float64", "np.float32", "numpy.float64", "np.floating", "'float64'", "'float32'"):
                check.holds(rule, key, f"fixed floating dtype {unparse(dt)}", mod.line(c))
            else:
                raise AnalysisError(f"Dataset.{prop} setter: dtype `{unparse(dt)[:40]}` passed to validate_ndinfo not recognised")
    check.floor("calibration setters validated by validate_ndinfo", n, 2)


def run(check, repo: Repo) -> None:
    mod, cls = repo.cls(f"{DS}:Dataset")
    vmod = repo.module(VAL)
    check.analysed(*(f"{DS}:Dataset.{m}" for m in ("__init__", "from_array", "copy", "pad", "crop", "bin",
                                                   "fourier_resample", "__getitem__", "mean", "max", "min")),
                   *(f"{m}:{c}" for m, c, _ in SUBS), f"{VAL}:validate_ndinfo", f"{VAL}:validate_units",
                   f"{VAL}:ensure_valid_array")

    # ---- R1 validated setters ----------------------------------------------------------------
    for prop, validator in (("origin", "validate_ndinfo"), ("sampling", "validate_ndinfo"),
                            ("units", "validate_units"), ("array", "ensure_valid_array")):
        _, st = repo.func(f"{DS}:Dataset.{prop}@setter")
        ok = False
        for c in calls_in(st):
            if call_name(c) == validator:
                args = [unparse(a) for a in c.args] + [unparse(k.value) for k in c.keywords]
                if "self.ndim" in args and c.args and dotted(c.args[0]) == st.args.args[1].arg:
                    ok = True
        stores = [n for n in ast.walk(st) if isinstance(n, ast.Assign) and any(dotted(t) == f"self._{prop}" for t in n.targets)]
        derived = all(names_in(n.value) & {x.targets[0].id for x in ast.walk(st) if isinstance(x, ast.Assign) and isinstance(x.targets[0], ast.Name)}
                      or (isinstance(n.value, ast.Call) and call_name(n.value) == validator) for n in stores)
        check.decide(ok and bool(stores) and derived, "C03-R1", f"Dataset.{prop} setter validates against self.ndim", "",
                     mod.line(st),
                     fail_detail=f"the {prop} setter does not store `{validator}(value, self.ndim …)`: a calibration of "
                                 f"another length (or an array of another rank) can be installed")
    # the array setter validates rank only: it does not force the previous dtype.  Copying variants install their result through this setter,
    # in-place variants bind self._array directly — both yield the same array only if the setter leaves the dtype alone
    _, aset = repo.func(f"{DS}:Dataset.array@setter")
    forced = [unparse(k.value) for c in calls_in(aset) if call_name(c) == "ensure_valid_array" for k in c.keywords if k.arg == "dtype" and not is_const(k.value, None)]
    forced += [unparse(c)[:50] for c in calls_in(aset) if isinstance(c.func, ast.Attribute) and c.func.attr == "astype"]
    prev_ = [c for c in calls_in(aset) if (isinstance(c.func, ast.Attribute) and c.func.attr == "astype" and c.args and state_dtype_closure(aset, c.args[0]))
             or any(k.arg == "dtype" and state_dtype_closure(aset, k.value) for k in c.keywords)]
    check.decide(not forced, "C03-R5", "Dataset.array setter does not coerce the new array to the previous dtype (copying and in-place variants install the same array)", "", mod.line(aset),
                 definite=bool(prev_),
                 fail_detail=f"the setter forces dtype {forced}: copying bin(reducer='mean') / fourier_resample on integer data are truncated back to integers while the in-place variants, "
                             f"which bind self._array directly, keep the floating-point result")
    from .c06 import working_vectors
    working_vectors(check, repo, repo.func(f"{DS}:Dataset.bin")[1], "Dataset.bin", "C03-R4")
    calibration_setter_dtype(check, repo, "C03-R5", "the copying variants (which go through the setter) and the in-place variants (which bind the private field) disagree")
    _, vn = repo.func(f"{VAL}:validate_ndinfo")
    _, vu = repo.func(f"{VAL}:validate_units")
    _, eva = repo.func(f"{VAL}:ensure_valid_array")
    for fn, needle, label in ((vn, "len(arr) != ndim", "validate_ndinfo"), (vu, "len(value) != ndim", "validate_units"),
                              (eva, "val_ndim > ndim", "ensure_valid_array")):
        ok = any(isinstance(n, ast.If) and _mentions_len_mismatch(n.test) and any(isinstance(s, ast.Raise) for s in n.body)
                 for n in ast.walk(fn))
        check.decide(ok, "C03-R1", f"{label} raises on a length/rank mismatch", "", vmod.line(fn),
                     fail_detail=f"{label} has no raising `… != ndim` (or `> ndim`) test")
    # the scalar arm of validate_ndinfo builds exactly ndim entries
    ok = any(isinstance(c, ast.Call) and call_name(c) == "np.full" and c.args and dotted(c.args[0]) == "ndim" for c in ast.walk(vn))
    check.decide(ok, "C03-R1", "validate_ndinfo: scalar broadcast has ndim entries", "", vmod.line(vn),
                 fail_detail="the scalar arm does not build np.full(ndim, value)")

    # the sequence arm of validate_ndinfo yields a 1-D array: `len(arr) == ndim` only bounds the FIRST dimension, so the array
    # must be flattened (or its rank / full shape tested) before it is returned
    rets = [n.value for n in walk_no_nested_defs(vn) if isinstance(n, ast.Return) and isinstance(n.value, ast.Name)]
    seq_names = {r.id for r in rets}
    flat, rank_test = False, False
    for nm in seq_names:
        for d in definitions(vn, nm):
            if not isinstance(d, ast.AST) or any(isinstance(c, ast.Call) and call_name(c) == "np.full" for c in ast.walk(d)):
                continue
            for c in ast.walk(d):
                if isinstance(c, ast.Call) and isinstance(c.func, ast.Attribute) and c.func.attr in ("flatten", "ravel"):
                    flat = True
                if isinstance(c, ast.Call) and isinstance(c.func, ast.Attribute) and c.func.attr == "reshape" and c.args and unparse(c.args[0]) in ("-1", "(-1,)"):
                    flat = True
                if isinstance(c, ast.Call) and (call_name(c) or "") in ("np.ravel",):
                    flat = True
    for n in ast.walk(vn):
        if isinstance(n, ast.If) and any(isinstance(s_, ast.Raise) for s_ in n.body):
            t = unparse(n.test)
            if any(f"{nm}.ndim" in t or f"{nm}.shape !=" in t or f"np.ndim({nm})" in t for nm in seq_names):
                rank_test = True
    # definite when the returned array is positively a bare conversion of the argument (np.array / np.asarray of it, nothing else) and no statement of the
    # function looks at a rank or shape at all: then a (1, ndim) value provably comes back two-dimensional
    bare = False
    for nm in seq_names:
        ds_ = [d for d in definitions(vn, nm) if isinstance(d, ast.AST) and not any(isinstance(c, ast.Call) and call_name(c) == "np.full" for c in ast.walk(d))]
        if ds_ and all(isinstance(d, ast.Call) and (call_name(d) or "") in ("np.array", "np.asarray", "np.asanyarray") for d in ds_):
            bare = True
    looks_at_rank = any(isinstance(x, ast.Attribute) and x.attr in ("ndim", "shape") for x in ast.walk(vn)) or any(isinstance(x, ast.Call) and (call_name(x) or "") in ("np.ndim", "np.shape", "np.atleast_1d", "np.squeeze") for x in ast.walk(vn))
    check.decide(flat or rank_test, "C03-R1", "validate_ndinfo: the sequence arm returns a 1-D array (flattened, or rank-checked) of length ndim", "", vmod.line(vn), definite=bare and not looks_at_rank,
                 fail_detail="the returned array is neither flattened nor rank-checked: 2-D input whose first dimension equals ndim (a column vector, a nested list) is stored "
                             "as a calibration with more than one entry per axis")

    # … and the length that is compared with ndim is the length of THAT array (after flattening): `len(value)` on the raw argument only bounds the first
    # dimension of a nested input — an (ndim, k) array passes and comes back with ndim·k entries
    len_on = set()
    for n in ast.walk(vn):
        if isinstance(n, ast.If) and any(isinstance(s_, ast.Raise) for s_ in n.body) and _mentions_len_mismatch(n.test):
            for c in ast.walk(n.test):
                if isinstance(c, ast.Call) and call_name(c) == "len" and c.args and isinstance(c.args[0], ast.Name):
                    len_on.add(c.args[0].id)
                if isinstance(c, ast.Name):      # n = len(arr); if n != ndim: raise
                    for d_ in definitions(vn, c.id):
                        if isinstance(d_, ast.Call) and call_name(d_) == "len" and d_.args and isinstance(d_.args[0], ast.Name):
                            len_on.add(d_.args[0].id)
                if isinstance(c, ast.Attribute) and c.attr in ("size", "shape") and isinstance(c.value, ast.Name):
                    len_on.add(c.value.id)
    params_vn = set(func_params(vn))
    check.decide(bool(len_on & seq_names), "C03-R1", "validate_ndinfo: the length compared with ndim is that of the returned (flattened) array", str(sorted(len_on)), vmod.line(vn),
                 definite=bool(len_on) and len_on <= params_vn and flat,
                 fail_detail=f"the length test reads {sorted(len_on)}, the function returns {sorted(seq_names)}: the raw argument's first dimension is compared while the flattened "
                             f"array is returned — a nested (ndim, k) value is accepted with ndim·k calibration entries")

    # ---- R2 private-write ownership ------------------------------------------------------------
    counts = {a: 0 for a in ("_array", "_origin", "_sampling", "_units")}
    all_classes = [(mod, cls)] + [repo.cls(f"{m}:{c}") for m, c, _ in SUBS]
    for cm, cc in all_classes:
        for fn in [d for d in cc.body if isinstance(d, ast.FunctionDef)]:
            is_setter = any(isinstance(d, ast.Attribute) and d.attr == "setter" for d in fn.decorator_list)
            cfg = None
            for n in walk_no_nested_defs(fn):
                if not isinstance(n, (ast.Assign, ast.AugAssign)):
                    continue
                tg = n.targets if isinstance(n, ast.Assign) else [n.target]
                for t in tg:
                    if isinstance(t, ast.Attribute) and t.attr in counts and dotted(t.value) == "self":
                        counts[t.attr] += 1
                        if is_setter or fn.name == "__init__":
                            continue
                        cfg = cfg or CFG(fn)
                        tb, _ = _inplace_branches(cfg)
                        nodes = cfg.nodes_of(n, ("stmt",))
                        inplace = bool(nodes) and _on_inplace_only(cfg, nodes[0], tb)
                        check.decide(inplace, "C03-R2", f"{cc.name}.{fn.name}: direct store to self.{t.attr} only on the in-place arm",
                                     "", cm.line(n),
                                     fail_detail=f"self.{t.attr} is written directly (bypassing the validating setter) on a "
                                                 f"path that is not guarded by modify_in_place")
                        if t.attr in ("_origin", "_sampling"):
                            verdict, why = _length_preserving(fn, n.value)
                            if verdict is None:
                                raise AnalysisError(f"C03-R2: cannot classify `{unparse(n.value)}` stored to self.{t.attr} in {fn.name}: {why}")
                            check.decide(verdict, "C03-R2", f"{cc.name}.{fn.name}: value stored to self.{t.attr} keeps one entry per axis",
                                         why, cm.line(n),
                                         fail_detail=f"`{unparse(n.value)}` stored to self.{t.attr} is not length-preserving: {why}")
    check.floor("private _array stores", counts["_array"], 2)
    check.floor("private _origin stores", counts["_origin"], 1)
    check.floor("private _sampling stores", counts["_sampling"], 1)
    check.floor("private _units stores", counts["_units"], 1)

    # ---- R3 registry agreement -----------------------------------------------------------------
    for m, cname, n in SUBS:
        smod, scls = repo.cls(f"{m}:{cname}")
        reg = None
        for d in scls.decorator_list:
            if isinstance(d, ast.Call) and (call_name(d) or "").endswith("register_dimension") and d.args:
                reg = ast.literal_eval(d.args[0])
        _, fa = repo.func(f"{m}:{cname}.from_array")
        facts = {}
        for c in calls_in(fa):
            cn = call_name(c)
            if cn == "ensure_valid_array":
                nd = kwarg(c, "ndim") or (c.args[2] if len(c.args) > 2 else None)
                facts["ensure_ndim"] = ast.literal_eval(nd) if nd is not None else None
            if cn in ("np.zeros", "np.ones") and c.args and isinstance(c.args[0], ast.Constant):
                facts[cn] = c.args[0].value
        for nn in ast.walk(fa):
            if isinstance(nn, ast.BinOp) and isinstance(nn.op, ast.Mult) and isinstance(nn.left, ast.List) and isinstance(nn.right, ast.Constant):
                facts["units"] = nn.right.value
        tok = any(isinstance(k.value, ast.Attribute) and k.arg == "_token" and unparse(k.value) == "cls._token"
                  for c in calls_in(fa) for k in c.keywords)
        if cname != "Dataset4dstem":
            check.decide(reg == n, "C03-R3", f"{cname}: registered for ndim {n}", f"decorator {reg}", smod.line(scls),
                         fail_detail=f"{cname} is registered for dimensionality {reg}, expected {n}: indexing that changes "
                                     f"dimensionality returns the wrong class")
        bad = {k: v for k, v in facts.items() if v != n}
        check.decide(not bad and "ensure_ndim" in facts, "C03-R3", f"{cname}.from_array: rank check and defaults are {n}-dimensional",
                     str(facts), smod.line(fa),
                     fail_detail=f"{cname}.from_array disagrees with ndim {n}: {bad or 'no ensure_valid_array(ndim=…)'}")
        check.decide(tok, "C03-R3", f"{cname}.from_array forwards the construction token", "", smod.line(fa),
                     fail_detail="from_array does not pass _token=cls._token")

    # ---- R4 source immutability ----------------------------------------------------------------
    fresh_callees = {"validate_ndinfo", "validate_units"}
    inv = {f"np.ndim(self.{c}) > 0" for c in ("origin", "sampling")} | {"len(self.units) > 0"}
    n_mut = 0
    for mname in ("copy", "__getitem__", "mean", "max", "min") + OPS:
        _, fn = repo.func(f"{DS}:Dataset.{mname}")
        al = Aliasing(fn, STATE, GETTERS, fresh_callees, inv)
        cfg = CFG(fn)
        tb, _fb = _inplace_branches(cfg)
        for n in cfg.nodes:
            if n.kind != "stmt":
                continue
            st = n.stmt
            targets = []
            if isinstance(st, ast.Assign):
                targets = [t for t in st.targets if isinstance(t, ast.Subscript)]
            elif isinstance(st, ast.AugAssign):
                targets = [st.target]
            muts = [(t.value if isinstance(t, ast.Subscript) else t) for t in targets]
            for c in ast.walk(st):
                if isinstance(c, ast.Call) and isinstance(c.func, ast.Attribute) and c.func.attr in (
                        "sort", "fill", "resize", "put", "itemset", "append", "extend", "insert", "pop", "remove", "clear",
                        "update", "setdefault") and isinstance(st, ast.Expr):
                    muts.append(c.func.value)
                o = kwarg(c, "out") if isinstance(c, ast.Call) else None
                if o is not None:
                    muts.append(o)
            for base in muts:
                if isinstance(base, ast.Attribute) and dotted(base.value) == "self" and isinstance(st, ast.AugAssign) and base.attr not in STATE | set(GETTERS):
                    continue
                if _on_inplace_only(cfg, n.id, tb):
                    continue
                n_mut += 1
                roots = al.roots(base)
                roots.discard("?") if False else None
                shared = roots & STATE
                if "?" in roots and not shared:
                    raise AnalysisError(f"C03-R4: cannot classify `{unparse(base)}` mutated in Dataset.{mname}")
                check.decide(not shared, "C03-R4",
                             f"Dataset.{mname}: `{unparse(st)[:50]}` does not write into the source's storage",
                             "fresh" if not shared else f"may alias {sorted(shared)}", mod.line(st), definite=bool(shared),
                             fail_detail=f"`{unparse(base)}` may share storage with self.{sorted(shared)} and is modified on a "
                                         f"path where modify_in_place is not set: the source dataset is changed by an "
                                         f"operation that returns a new dataset")
        # attribute stores on self on non-in-place paths
        for n in cfg.nodes:
            if n.kind == "stmt" and isinstance(n.stmt, (ast.Assign, ast.AugAssign)):
                tg = n.stmt.targets if isinstance(n.stmt, ast.Assign) else [n.stmt.target]
                for t in tg:
                    if isinstance(t, ast.Attribute) and dotted(t.value) == "self" and (t.attr in STATE or t.attr in GETTERS):
                        if not _on_inplace_only(cfg, n.id, tb):
                            check.violated("C03-R4", f"Dataset.{mname}: stores to self.{t.attr} outside the in-place arm",
                                           f"`{unparse(n.stmt)[:60]}` runs when modify_in_place is false", mod.line(n.stmt))
    check.floor("mutation sites examined on non-in-place paths", n_mut, 4)
    # what a copying operation hands to the NEW dataset never shares storage with the source (basic slicing / reshape of self.array is a view)
    n_res = 0
    for mname in OPS:
        _, fn = repo.func(f"{DS}:Dataset.{mname}")
        al = Aliasing(fn, STATE, GETTERS, fresh_callees, inv)
        for st in walk_no_nested_defs(fn):
            if not isinstance(st, ast.Assign):
                continue
            for t in st.targets:
                if isinstance(t, ast.Attribute) and isinstance(t.value, ast.Name) and t.value.id != "self" and t.attr in ("array", "_array"):
                    n_res += 1
                    shared = al.roots(st.value) & {"_array"}
                    check.decide(not shared, "C03-R4", f"Dataset.{mname}: the array given to the returned dataset `{t.value.id}` does not share storage with the source", unparse(st.value)[:60],
                                 mod.line(st), definite=bool(shared), fail_detail=f"`{unparse(st)[:70]}` installs a view of self's array in the new dataset: a later write into the result (or into the source) "
                                                           f"changes the other — the source is not left bit-identical")
    check.floor("arrays installed in returned datasets", n_res, 3)
    # copy(): every field handed to the new dataset is fresh
    _, cp = repo.func(f"{DS}:Dataset.copy")
    alc = Aliasing(cp, STATE, GETTERS, fresh_callees, inv)
    fa_calls = [c for c in calls_in(cp) if isinstance(c.func, ast.Attribute) and c.func.attr == "from_array"]
    if len(fa_calls) != 1:
        raise AnalysisError("Dataset.copy: from_array call not found")
    for k in fa_calls[0].keywords:
        if k.arg in ("array", "origin", "sampling", "units"):
            roots = alc.roots(k.value) & STATE
            if k.arg in ("origin", "sampling", "units"):
                # from_array hands these to the property setters, which store np.array(v).flatten() / [str(u) for u in v] (C03-R1): fresh objects whatever is passed
                check.holds("C03-R4", f"Dataset.copy: `{k.arg}` of the copy is fresh storage", "re-copied by the validating setter", mod.line(k.value))
                continue
            check.decide(not roots, "C03-R4", f"Dataset.copy: `{k.arg}` of the copy is fresh storage", unparse(k.value), mod.line(k.value),
                         fail_detail=f"copy() passes `{unparse(k.value)}` for {k.arg}, which may alias self.{sorted(roots)}")

    # ---- R5 in-place / copy agreement -----------------------------------------------------------
    for mname in OPS:
        _, fn = repo.func(f"{DS}:Dataset.{mname}")
        cfg = CFG(fn)
        tb, fb = _inplace_branches(cfg)
        inpl: dict[str, str] = {}
        copy_: dict[str, str] = {}
        copy_names = {t.id for n in walk_no_nested_defs(fn) if isinstance(n, ast.Assign) and isinstance(n.value, ast.Call)
                      and (call_name(n.value) or "") in ("self.copy", "copy.deepcopy") for t in n.targets if isinstance(t, ast.Name)}
        maybe_self = {t.id for n in walk_no_nested_defs(fn) if isinstance(n, ast.Assign) and isinstance(n.value, ast.IfExp)
                      and ("self" in (dotted(n.value.body), dotted(n.value.orelse))) for t in n.targets if isinstance(t, ast.Name)}
        self_stores: list[tuple[int, str]] = []
        for n in cfg.nodes:
            if n.kind != "stmt" or not isinstance(n.stmt, ast.Assign):
                continue
            for t in n.stmt.targets:
                if not isinstance(t, ast.Attribute):
                    continue
                owner = dotted(t.value)
                fld = t.attr.lstrip("_")
                if fld not in ("array", "origin", "sampling", "units"):
                    continue
                val = unparse(n.stmt.value)
                if owner == "self" or owner in maybe_self:
                    if owner == "self":
                        inpl[fld] = val
                    else:
                        inpl[fld] = val
                        copy_[fld] = val
                    self_stores.append((n.id, fld))
                elif owner in copy_names:
                    copy_[fld] = val.replace(f"{owner}.", "self.")
        if not tb and not maybe_self:
            raise AnalysisError(f"Dataset.{mname}: neither a modify_in_place test nor a `x = self if modify_in_place else …` "
                                f"selection found")
        detail = f"in-place {inpl} / copy {copy_}"
        check.decide(inpl == copy_ and bool(inpl), "C03-R5", f"Dataset.{mname}: in-place and copying arms update the same fields from the same values",
                     detail, mod.line(fn),
                     fail_detail=f"the two arms differ: {detail} — the in-place variant no longer produces the same array "
                                 f"and calibration as the copying variant")
        # after a store into one of self's fields, what that field determines must not be read again: in the in-place variant the
        # read yields the new value, in the copying variant (where the store went to the copy) the old one — the arms disagree.
        # Field-sensitive def-use over the CFG, independent of how the function is laid out → a definite verdict.
        # (ndim is invariant under pad / crop / bin / fourier_resample: reading it after the store is harmless and not claimed)
        DEP = {"array": {"array", "_array", "shape", "dtype"}, "sampling": {"sampling", "_sampling"},
               "origin": {"origin", "_origin"}, "units": {"units", "_units"}}
        bad = []
        n_stores = 0
        first_line = None
        for sid, fld in self_stores:
            n_stores += 1
            first_line = first_line or mod.line(cfg.nodes[sid].stmt)
            for nid in cfg.reachable_from(sid) - {sid}:
                nd = cfg.nodes[nid]
                exprs = [nd.stmt] if nd.kind == "stmt" else ([nd.expr] if nd.expr is not None else [])
                for e in exprs:
                    if isinstance(e, (ast.FunctionDef, ast.ClassDef)):
                        continue
                    for a in ast.walk(e):
                        if isinstance(a, ast.Attribute) and isinstance(a.ctx, ast.Load) and dotted(a.value) == "self" \
                                and a.attr in DEP[fld]:
                            bad.append(f"self.{a.attr} at line {getattr(a, 'lineno', 0)} (after the store of `{fld}`)")
        if n_stores:
            check.decide(not bad, "C03-R5", f"Dataset.{mname}: the old state is not read after the first in-place store",
                         f"{n_stores} stores into self's fields, no later read of what they determine", first_line,
                         fail_detail=f"{sorted(set(bad))[:4]} are evaluated after that part of self's state was already replaced: in "
                                     f"place, calibration is computed from the new shape instead of the old one", definite=True)

    # ---- R6 index bookkeeping -------------------------------------------------------------------
    _rule_getitem(check, repo, mod)


def _mentions_len_mismatch(test: ast.AST) -> bool:
    for n in ast.walk(test):
        if isinstance(n, ast.Compare) and len(n.ops) == 1 and isinstance(n.ops[0], (ast.NotEq, ast.Gt)):
            if dotted(n.comparators[0]) == "ndim":
                return True
    return False


def _length_preserving(fn: ast.AST, value: ast.AST):
    """Is `value` (stored to a calibration field) provably of the same length as the old
    calibration?  → (True/False/None, reason)."""
    if isinstance(value, ast.Name):
        defs = definitions(fn, value.id)
        if not defs:
            return None, f"no definition of {value.id}"
        verdicts = [_length_preserving(fn, d) if isinstance(d, ast.AST) else (None, repr(d)) for d in defs]
        if any(v[0] is False for v in verdicts):
            return False, "; ".join(v[1] for v in verdicts if v[0] is False)
        if any(v[0] is None for v in verdicts):
            return None, "; ".join(v[1] for v in verdicts if v[0] is None)
        return True, "; ".join(v[1] for v in verdicts)
    txt = unparse(value)
    if isinstance(value, ast.Call):
        cn = call_name(value) or ""
        if isinstance(value.func, ast.Attribute) and value.func.attr in ("copy", "astype") and not cn.startswith("np."):
            return _length_preserving(fn, value.func.value)
        if cn in ("np.asarray", "np.array", "np.asanyarray", "np.copy") and value.args:
            return _length_preserving(fn, value.args[0])
        if cn in ("np.concatenate", "np.append", "np.delete", "np.insert", "np.hstack", "np.repeat", "np.tile"):
            return False, f"{cn} changes the number of entries"
        if cn in ("validate_ndinfo",):
            return True, "validated against ndim"
    if isinstance(value, ast.Attribute) and dotted(value.value) == "self" and value.attr.lstrip("_") in ("origin", "sampling"):
        return True, f"derived entry-for-entry from self.{value.attr}"
    if isinstance(value, ast.Subscript):
        if isinstance(value.slice, ast.Slice) or isinstance(value.slice, (ast.List, ast.ListComp, ast.Name, ast.Tuple)):
            return False, f"`{txt}` selects a subset of the entries"
    if isinstance(value, ast.BinOp):
        l, r = _length_preserving(fn, value.left), _length_preserving(fn, value.right)
        if l[0] or r[0]:
            if l[0] is False or r[0] is False:
                return False, l[1] if l[0] is False else r[1]
            return True, "elementwise arithmetic on a calibration vector"
    if isinstance(value, (ast.List, ast.Tuple)):
        return False, "a literal of fixed length"
    return None, f"`{txt}` not classified"


def _rule_getitem(check, repo: Repo, mod) -> None:
    _, fn = repo.func(f"{DS}:Dataset.__getitem__")
    # index normalisation order: the Ellipsis expansion computes its width from len(index); padding the index to ndim first
    # leaves the Ellipsis one slot wide and pushes every entry after it onto the wrong axis
    ip = func_params(fn)[1]
    ell = [n for n in walk_no_nested_defs(fn) if isinstance(n, ast.If) and isinstance(n.test, ast.Compare) and isinstance(n.test.ops[0], ast.In)
           and unparse(n.test.left) in ("Ellipsis", "...") and unparse(n.test.comparators[0]) == ip]
    pad = [n for n in walk_no_nested_defs(fn) if isinstance(n, ast.If) and isinstance(n.test, ast.Compare) and isinstance(n.test.ops[0], (ast.Lt, ast.NotEq, ast.LtE))
           and unparse(n.test.left) == f"len({ip})" and unparse(n.test.comparators[0]) == "self.ndim"]
    if len(ell) != 1 or len(pad) != 1:
        raise AnalysisError(f"Dataset.__getitem__: index normalisation (`Ellipsis in {ip}` / `len({ip}) < self.ndim`) not recognised")
    gcfg = CFG(fn)
    en, pn = min(gcfg.nodes_of(ell[0])), min(gcfg.nodes_of(pad[0]))
    check.decide(gcfg.dominates(en, pn) and en not in gcfg.reachable_from(pn), "C03-R6", "Dataset.__getitem__: Ellipsis is expanded before the index is padded to ndim", "",
                 mod.line(ell[0]), fail_detail="the index is padded to ndim before the Ellipsis is expanded: `ds[..., k]` with fewer entries than axes assigns k to the wrong axis "
                                               "and drops the wrong calibration entry")
    widths = [unparse(d) for n in ast.walk(ell[0]) if isinstance(n, ast.Assign) for d in [n.value] if "self.ndim" in unparse(d) and "len(" in unparse(d)]
    check.decide(any(w.replace(" ", "") in (f"self.ndim-(len({ip})-1)", f"self.ndim-len({ip})+1", f"self.ndim+1-len({ip})") for w in widths), "C03-R6",
                 "Dataset.__getitem__: the Ellipsis stands for ndim − (len(index) − 1) full slices", str(widths), mod.line(ell[0]),
                 fail_detail=f"Ellipsis width is {widths}: the normalised index does not have one entry per axis")
    # kept-axes definition: a list comprehension over enumerate(index) excluding integer indices
    kept = None
    for n in walk_no_nested_defs(fn):
        if isinstance(n, ast.Assign) and isinstance(n.value, ast.ListComp) and isinstance(n.targets[0], ast.Name):
            g = n.value.generators[0]
            if isinstance(g.iter, ast.Call) and call_name(g.iter) == "enumerate" and g.ifs:
                kept = n
    if kept is None:
        raise AnalysisError("Dataset.__getitem__: kept-axes definition not found")
    kname = kept.targets[0].id
    cond = unparse(kept.value.generators[0].ifs[0])
    excl_int = "isinstance" in cond and "int" in cond and cond.strip().startswith("not ")
    check.decide(excl_int, "C03-R6", "Dataset.__getitem__: kept axes = positions whose index is not an integer", cond, mod.line(kept),
                 fail_detail=f"kept axes are selected by `{cond}`: integer indices must (and only they may) drop an axis")
    if len(definitions(fn, kname)) != 1:
        check.violated("C03-R6", "Dataset.__getitem__: one kept-axes list", f"{kname} is rebound", mod.line(kept))
    # the three calibrations are reduced with that same list
    uses = {}
    for n in walk_no_nested_defs(fn):
        if isinstance(n, ast.Assign) and isinstance(n.targets[0], ast.Name) and n.targets[0].id in ("new_origin", "new_sampling", "new_units"):
            uses[n.targets[0].id] = n.value
    for fld in ("origin", "sampling", "units"):
        v = uses.get(f"new_{fld}")
        if v is None:
            raise AnalysisError(f"Dataset.__getitem__: new_{fld} not found")
        txt = unparse(v)
        ok = kname in names_in(v) and f"self.{fld}" in txt and not any(
            isinstance(x, ast.Call) and call_name(x) in ("reversed", "sorted") for x in ast.walk(v)) and "[::-1]" not in txt
        check.decide(ok, "C03-R6", f"Dataset.__getitem__: {fld} reduced with the kept-axes list, in order", txt[:80], mod.line(v),
                     fail_detail=f"new_{fld} = `{txt[:80]}` is not self.{fld} restricted to `{kname}` in order")
    # the values handed to from_array are those
    fa = [c for c in calls_in(fn) if isinstance(c.func, ast.Attribute) and c.func.attr == "from_array"]
    if len(fa) != 1:
        raise AnalysisError("Dataset.__getitem__: from_array call not found")
    kw = {k.arg: unparse(k.value) for k in fa[0].keywords}
    ok = kw.get("origin") == "new_origin" and kw.get("sampling") == "new_sampling" and kw.get("units") == "new_units" \
        and kw.get("array") in ("array_view",)
    check.decide(ok, "C03-R6", "Dataset.__getitem__: result built from the reduced calibrations and the NumPy-indexed data", str(kw), mod.line(fa[0]),
                 fail_detail=f"from_array receives {kw}")
    av = definitions(fn, "array_view")
    ok = len(av) == 1 and isinstance(av[0], ast.AST) and unparse(av[0]) == "self.array[index]"
    check.decide(ok, "C03-R6", "Dataset.__getitem__: data = self.array[index] with the user's index expression", "", mod.line(fn),
                 fail_detail="array_view is not exactly self.array[index] evaluated on the original index")
    # step scaling
    loop = None
    for n in walk_no_nested_defs(fn):
        if isinstance(n, ast.For) and any(
                isinstance(x, ast.AugAssign) and isinstance(x.target, ast.Subscript) and dotted(x.target.value) == "new_sampling"
                for x in ast.walk(n)):
            loop = n
    if loop is None:
        raise AnalysisError("Dataset.__getitem__: step-scaling loop not found")
    if isinstance(loop.target, ast.Tuple) and isinstance(loop.iter, ast.Call) and call_name(loop.iter) == "enumerate":
        ivar, xvar = loop.target.elts[0].id, loop.target.elts[1].id
    elif isinstance(loop.target, ast.Name):
        ivar, xvar = None, loop.target.id
    else:
        raise AnalysisError("Dataset.__getitem__: step-scaling loop header not understood")
    stores = [x for x in ast.walk(loop) if isinstance(x, ast.AugAssign) and isinstance(x.target, ast.Subscript)
              and dotted(x.target.value) == "new_sampling"]
    if len(stores) != 1:
        raise AnalysisError("Dataset.__getitem__: expected one sampling update in the step loop")
    s = stores[0]
    # the entry whose step is used: the loop's own entry variable, or a local bound to index[<axis variable of the loop>]
    iparam = func_params(fn)[1]
    entry_ok, over_kept = False, False
    if isinstance(s.value, ast.Attribute) and s.value.attr == "step" and isinstance(s.value.value, ast.Name):
        ev = s.value.value.id
        if ev == xvar and unparse(loop.iter) in (f"enumerate({iparam})", iparam):
            entry_ok = True
        else:
            edefs = [d for d in definitions(loop, ev) if isinstance(d, ast.AST)]
            if len(edefs) == 1 and isinstance(edefs[0], ast.Subscript) and unparse(edefs[0].value) == iparam and isinstance(edefs[0].slice, ast.Name) and edefs[0].slice.id == xvar \
                    and isinstance(loop.iter, ast.Call) and call_name(loop.iter) == "enumerate" and loop.iter.args and unparse(loop.iter.args[0]) == kname:
                entry_ok, over_kept = True, True  # for out_axis, in_axis in enumerate(kept_axes): idx = index[in_axis]
    mult_step = isinstance(s.op, ast.Mult) and entry_ok
    check.decide(mult_step, "C03-R6", "Dataset.__getitem__: sampling of a stepped axis is multiplied by the step", unparse(s), mod.line(s),
                 fail_detail=f"`{unparse(s)}` does not multiply by the step of the index entry of the axis being visited")
    pos = s.target.slice
    verdict = None
    why = ""
    if over_kept and isinstance(pos, ast.Name) and pos.id == ivar:
        verdict, why = True, f"the loop enumerates `{kname}`: position {ivar} is the kept position of axis {xvar}"
    if verdict is None and isinstance(pos, ast.Name):
        pdefs = [d for d in definitions(loop, pos.id)]
        outer = [d for d in definitions(fn, pos.id)]
        if any(isinstance(d, ast.AST) and unparse(d) == f"{kname}.index({ivar})" for d in pdefs):
            verdict, why = True, f"{pos.id} = {kname}.index({ivar})"
        else:
            # counter idiom: position advanced once per kept axis
            incs = [x for x in ast.walk(loop) if isinstance(x, ast.AugAssign) and dotted(x.target) == pos.id and isinstance(x.op, ast.Add)]
            if incs:
                cfg = CFG(fn)
                conds = []
                for inc in incs:
                    nid = cfg.nodes_of(inc, ("stmt",))
                    g = [(unparse(t), p) for t, p in cfg.guards_of(nid[0])] if nid else []
                    conds.append(g)
                kept_pred = cond[4:].strip() if cond.startswith("not ") else None
                good = False
                for g in conds:
                    inner = [x for x in g if xvar in x[0]]
                    if not inner:
                        # unconditional increment for every index: wrong (integers drop an axis)
                        continue
                    if any(kept_pred and t == kept_pred and p is False for t, p in inner) or any(t == cond and p is True for t, p in inner):
                        good = True
                if good:
                    verdict, why = True, f"{pos.id} is advanced once per kept axis"
                else:
                    verdict, why = False, (f"position counter `{pos.id}` is advanced under {conds}, which is not 'index is not an "
                                           f"integer': list/array/None indices keep their axis too, so the step scales the sampling "
                                           f"of the wrong axis")
    elif unparse(pos) == f"{kname}.index({ivar})":
        verdict, why = True, "direct"
    if verdict is None and isinstance(pos, ast.Name) and pos.id == ivar and isinstance(loop.iter, ast.Call) and call_name(loop.iter) == "enumerate" and loop.iter.args:
        # position = running count over a (filtered) sequence of index entries: right iff the filter is exactly the kept-axes predicate
        seq = loop.iter.args[0]
        if isinstance(seq, ast.Name):
            dd = [d for d in definitions(fn, seq.id) if isinstance(d, ast.AST)]
            seq = dd[0] if len(dd) == 1 else seq
        kept_gen = kept.value.generators[0]
        kvar = kept_gen.target.elts[1].id if isinstance(kept_gen.target, ast.Tuple) and len(kept_gen.target.elts) == 2 and isinstance(kept_gen.target.elts[1], ast.Name) else None
        import re as _re
        norm = lambda t, v: _re.sub(rf"(?<![A-Za-z0-9_]){_re.escape(v)}(?![A-Za-z0-9_])", "§", t) if v else t
        if isinstance(seq, (ast.ListComp, ast.GeneratorExp)) and len(seq.generators) == 1 and isinstance(seq.generators[0].target, ast.Name) \
                and isinstance(seq.elt, ast.Name) and seq.elt.id == seq.generators[0].target.id and unparse(seq.generators[0].iter) == unparse(kept_gen.iter.args[0]):
            g = seq.generators[0]
            filt = " and ".join(norm(unparse(c), g.target.id) for c in g.ifs) or "True"
            same = filt == norm(cond, kvar)
            verdict = same
            why = (f"position = count of preceding entries with `{filt}` = the kept-axes predicate" if same else
                   f"position counts the entries with `{filt}`, the kept axes are those with `{norm(cond, kvar)}`: list/array indices keep their axis but are not counted, "
                   f"so after a list index the step scales the sampling of the wrong axis")
        elif unparse(seq) == unparse(kept_gen.iter.args[0]):
            verdict, why = False, "position is the raw index position: integer indices drop an axis, so the kept position is smaller"
    if verdict is None:
        raise AnalysisError(f"Dataset.__getitem__: position expression `{unparse(pos)}` of the sampling update not understood")
    check.decide(verdict, "C03-R6", "Dataset.__getitem__: the step scales the kept position of the stepped axis", why, mod.line(s),
                 fail_detail=why, definite=True)  # a False verdict is only produced by a recognised counting idiom whose predicate differs from the kept-axes predicate
    # class selection
    txt = unparse(fn)
    ok = "cls = type(self)" in txt and "self._registry[out_ndim]" in txt and "cls = Dataset" in txt
    sel = None
    for n in walk_no_nested_defs(fn):
        if isinstance(n, ast.If) and isinstance(n.test, ast.Compare) and unparse(n.test) in ("out_ndim == self.ndim", "self.ndim == out_ndim"):
            sel = n
    ok = ok and sel is not None and any(unparse(x) == "cls = type(self)" for x in sel.body)
    check.decide(ok, "C03-R6", "Dataset.__getitem__: class = type(self) iff dimensionality is unchanged, else registry with Dataset fallback",
                 "", mod.line(sel or fn),
                 fail_detail="the result class is not chosen as type(self) / registry[out_ndim] / Dataset")
    od = definitions(fn, "out_ndim")
    ok = len(od) == 1 and isinstance(od[0], ast.AST) and unparse(od[0]) == "array_view.ndim"
    check.decide(ok, "C03-R6", "Dataset.__getitem__: out_ndim is the rank of the indexed data", "", mod.line(fn),
                 fail_detail="out_ndim is not array_view.ndim")


MANIFEST = {
    "text": "Decides the structural part of container coherence for every history: calibration setters validate against "
            "self.ndim and validators raise on mismatch (so public writes keep one entry per axis); private calibration "
            "writes are confined to in-place arms and length-preserving; registry, rank checks and defaults agree per "
            "registered class; a may-alias analysis shows nothing that can share storage with the source is mutated on any "
            "non-in-place path and copy() hands over fresh storage; in-place and copying arms of pad/crop/bin/"
            "fourier_resample update the same fields from the same definitions and never read the old state after the first "
            "in-place store; __getitem__ reduces origin/sampling/units with one kept-axes list in order, scales sampling at "
            "the kept position of the stepped axis and selects the class by resulting rank.",
    "note": "Not decided: that NumPy indexing returns what NumPy returns, dtype handling, names. The alias analysis is "
            "intra-procedural with summaries for the validators (validate_ndinfo/validate_units return fresh storage).",
    "technique": "CFG dominance + intra-procedural may-alias/freshness analysis + in-place/copy sibling agreement (AST)",
}
MANIFEST["text"] += ' Also: Ellipsis is expanded before the index is padded to ndim and stands for ndim − (len − 1) slices; validate_ndinfo returns a flattened or rank-checked array.'
MANIFEST["text"] += ' The stale-read rule is field-sensitive (a store into self.array invalidates shape/ndim/dtype reads, a store into sampling only sampling reads …) and is a def-use fact over the CFG, reported as definite whatever the layout of the method.'
MANIFEST["text"] += ' validate_ndinfo: the length compared with ndim is that of the returned, flattened array (not of the raw argument).'
MANIFEST["text"] += ' R5 also: the calibration setters and the array setter do not convert the new value to the dtype of the state it replaces (closure of the dtype argument through locals; definite).'
MANIFEST["text"] += " R4 also: Dataset.bin's calibration working vectors are storage of their own (coupled with validate_ndinfo's copy guarantee)."
