"""C11 — ragged Vector invariants: guards, schema lock-step, freshness, rank-genericity,
traversal agreement (E3, E4, E5)."""
from __future__ import annotations

import ast

from ..core.cfg import CFG
from ..core.repo import (AnalysisError, Repo, call_name, calls_in, definitions, dotted, func_params, is_const,
                         kwarg, names_in, param_default, unparse, walk_no_nested_defs, parent)

VEC = "quantem.core.datastructures.vector"
VAL = "quantem.core.utils.validators"

EXPLANATION = (
    "structural invariants of the ragged Vector decided on the source: every cell store is dominated "
    "by the un-weakened column-count guard on the stored expression; schema stores are paired, "
    "guarded for uniqueness and failure-atomic; no mutable default escapes into state; flatten "
    "returns fresh arrays; cell access is rank-generic; the five recursive traversals agree; fancy "
    "assignment enumerates the selection"
)

FRESH_CALLS = {"np.concatenate", "np.vstack", "np.hstack", "np.empty", "np.zeros", "np.array",
               "np.stack", "np.copy", "numpy.concatenate", "np.ones", "np.full"}


def _disjuncts(t: ast.AST) -> list[ast.AST]:
    if isinstance(t, ast.BoolOp) and isinstance(t.op, ast.Or):
        out = []
        for v in t.values:
            out += _disjuncts(v)
        return out
    return [t]


def _is_colcount_test(d: ast.AST, x: str) -> bool:
    """X.shape[1] != <num_fields expr>"""
    if isinstance(d, ast.Compare) and len(d.ops) == 1 and isinstance(d.ops[0], ast.NotEq):
        l = d.left
        if isinstance(l, ast.Subscript) and unparse(l.value) == f"{x}.shape" and is_const(l.slice, 1):
            return "num_fields" in unparse(d.comparators[0])
    return False


def _is_ndim_test(d: ast.AST, x: str) -> bool:
    return (isinstance(d, ast.Compare) and len(d.ops) == 1 and isinstance(d.ops[0], ast.NotEq)
            and unparse(d.left) == f"{x}.ndim" and is_const(d.comparators[0], 2))


def _guards(cfg: CFG, node: int, x: str) -> tuple[bool, bool]:
    """(column-count guard, ndim guard) dominate `node` with a raising true-branch, on expr x."""
    col = nd = False
    for test, pol in cfg.guards_of(node):
        if pol:
            continue
        ds = _disjuncts(test)
        if any(_is_colcount_test(d, x) for d in ds):
            col = True
        if any(_is_ndim_test(d, x) for d in ds):
            nd = True
    return col, nd


def _derives_from_data(fn: ast.AST, name: str, seen=None) -> bool:
    seen = seen or set()
    if name in seen:
        return False
    seen.add(name)
    for d in definitions(fn, name):
        v = d if isinstance(d, ast.AST) else getattr(d, "value", None) or getattr(d, "iter", None)
        if v is None:
            continue
        for n in ast.walk(v):
            if isinstance(n, ast.Attribute) and n.attr == "_data":
                return True
            if isinstance(n, ast.Name) and n.id != name and _derives_from_data(fn, n.id, seen):
                return True
    return False


def run(check, repo: Repo) -> None:
    mod, vcls = repo.cls(f"{VEC}:Vector")
    _, fv = repo.cls(f"{VEC}:_FieldView")
    vmod = repo.module(VAL)
    methods = {d.name: d for d in vcls.body if isinstance(d, ast.FunctionDef)}
    # a field handle is a VIEW: it keeps the vector and the field, never a snapshot of the cells.  Anything assigned in _FieldView.__init__ that is derived from
    # `vector._data` is frozen at construction and goes stale as soon as a cell array is replaced (cell / slice assignment, set_data, add_fields, remove_fields):
    # `fx = v['x']; v[0] = new_cell; fx.flatten()` then reads detached arrays.
    fv_init = next((f_ for f_ in fv.body if isinstance(f_, ast.FunctionDef) and f_.name == "__init__"), None)
    if fv_init is None:
        raise AnalysisError("_FieldView.__init__ not found")
    for st_ in walk_no_nested_defs(fv_init):
        if isinstance(st_, ast.Assign) and any(isinstance(t_, ast.Attribute) and dotted(t_.value) == "self" for t_ in st_.targets):
            reads_cells = any(isinstance(x, ast.Attribute) and x.attr == "_data" for x in ast.walk(st_.value))
            check.decide(not reads_cells, "C11-R4", f"_FieldView.__init__: `{unparse(st_.targets[0])}` is not a snapshot of the cells", unparse(st_)[:60], mod.line(st_), definite=True,
                         fail_detail=f"`{unparse(st_)[:70]}` caches something computed from vector._data at construction: a handle obtained before a cell array is replaced keeps "
                                     f"operating on the old arrays — flatten() is no longer the column over the current cells, in-place operators silently do nothing to the vector")
    check.analysed(*(f"{VEC}:Vector.{m}" for m in sorted(set(methods))), f"{VEC}:_FieldView.*",
                   f"{VAL}:validate_vector_data", f"{VAL}:validate_vector_data_for_inference",
                   f"{VAL}:validate_fields", f"{VAL}:validate_vector_units")

    # ---- R11 no derived per-instance cache survives a schema change ------------------------------
    # The vector's state is (_shape, _fields, _units, _data, _metadata, _name).  Any OTHER attribute that a method fills in (a memo of handles, of
    # column indices, …) whose entries are computed from the field list must be dropped by every method that re-binds the field list.
    CORE = {"_shape", "_fields", "_units", "_data", "_metadata", "_name", "_num_fields"}
    fills: dict[str, list] = {}
    for mname_, f_ in methods.items():
        if mname_ == "__init__":
            continue
        for x in ast.walk(f_):
            tgt = None
            if isinstance(x, (ast.Assign, ast.AugAssign)):
                for t_ in (x.targets if isinstance(x, ast.Assign) else [x.target]):
                    for tt in ([t_] + ([] if not isinstance(x.value, ast.Assign) else [])):
                        if isinstance(tt, ast.Subscript) and isinstance(tt.value, ast.Attribute) and dotted(tt.value.value) == "self":
                            tgt = (tt.value.attr, x.value, x)
            if isinstance(x, ast.NamedExpr):
                pass
            if isinstance(x, ast.Call) and isinstance(x.func, ast.Attribute) and x.func.attr in ("setdefault", "append", "add", "update") \
                    and isinstance(x.func.value, ast.Attribute) and dotted(x.func.value.value) == "self":
                tgt = (x.func.value.attr, x.args[-1] if x.args else x, x)
            if tgt and tgt[0] not in CORE:
                fills.setdefault(tgt[0], []).append((mname_, f_, tgt[1], tgt[2]))
    # chained assignment `view = self._cache[k] = expr`
    for mname_, f_ in methods.items():
        for x in ast.walk(f_):
            if isinstance(x, ast.Assign) and len(x.targets) > 1:
                for t_ in x.targets:
                    if isinstance(t_, ast.Subscript) and isinstance(t_.value, ast.Attribute) and dotted(t_.value.value) == "self" and t_.value.attr not in CORE:
                        if not any(e[3] is x for e in fills.get(t_.value.attr, [])):
                            fills.setdefault(t_.value.attr, []).append((mname_, f_, x.value, x))
    schema_writers = [(mname_, f_) for mname_, f_ in methods.items() if mname_ != "__init__" and
                      any((isinstance(x, ast.Assign) and any(dotted(t_) == "self._fields" for t_ in x.targets))
                          or (isinstance(x, ast.Call) and isinstance(x.func, ast.Attribute) and x.func.attr in ("extend", "append", "insert", "pop", "remove") and dotted(x.func.value) == "self._fields")
                          or (isinstance(x, ast.AugAssign) and dotted(x.target) == "self._fields") for x in ast.walk(f_))]
    check.floor("methods that re-bind the field list", len(schema_writers), 3)
    if not fills:
        check.holds("C11-R11", "Vector: no per-instance cache besides the declared state (nothing can go stale across add_fields / remove_fields)", f"state = {sorted(CORE)}", mod.line(vcls))
    for attr_, sites in fills.items():
        mname_, f_, val_, st_ = sites[0]
        # does the cached entry depend on the field list (directly or through locals)?
        dep, seen_, stack_ = False, set(), [val_]
        while stack_ and not dep:
            e_ = stack_.pop()
            for y in ast.walk(e_):
                if isinstance(y, ast.Attribute) and y.attr in ("_fields", "fields") and dotted(y.value) == "self":
                    dep = True
                elif isinstance(y, ast.Call) and isinstance(y.func, ast.Name) and repo.has(f"{VEC}:{y.func.id}") and any(dotted(a_) == "self" for a_ in y.args):
                    # an object of a sibling class built from this vector: does its constructor read the field list?
                    try:
                        _m2, c2 = repo.cls(f"{VEC}:{y.func.id}")
                    except AnalysisError:
                        c2 = None
                    i2 = next((g for g in (c2.body if c2 is not None else []) if isinstance(g, ast.FunctionDef) and g.name == "__init__"), None)
                    if i2 is not None and any(isinstance(z, ast.Attribute) and z.attr in ("_fields", "fields") for z in ast.walk(i2)):
                        dep = True
                elif isinstance(y, ast.Name) and y.id not in seen_:
                    seen_.add(y.id)
                    stack_ += [d for d in definitions(f_, y.id) if isinstance(d, ast.AST)]
        if not dep:
            raise AnalysisError(f"Vector.{mname_}: fills `self.{attr_}` with entries whose dependence on the field list is not recognised")
        from ..core.cfg import assigned_on_every_path
        stale = []
        for wn, wf in schema_writers:
            every, _via, _c = assigned_on_every_path(wf, lambda t, a=attr_: dotted(t) == f"self.{a}")
            cleared = any(isinstance(c, ast.Call) and isinstance(c.func, ast.Attribute) and c.func.attr == "clear" and dotted(c.func.value) == f"self.{attr_}" for c in ast.walk(wf))
            if not (every or cleared):
                stale.append(wn + ("@setter" if any(isinstance(d_, ast.Attribute) and d_.attr == "setter" for d_ in wf.decorator_list) else ""))
        check.decide(not stale, "C11-R11", f"Vector: the cache `self.{attr_}` (filled in {mname_}) is dropped by every method that re-binds the field list", "", mod.line(st_), definite=True,
                     fail_detail=f"`{unparse(st_)[:60]}` memoises entries computed from the field list, but {stale} re-bind `self._fields` without resetting `self.{attr_}`: after "
                                 f"add_fields / remove_fields a handle obtained earlier (or the cached one returned again) addresses another field's column")

    # ---- R1 column-count guard on every cell store -------------------------------------------
    n_cell = 0
    for mname in ("set_data", "__setitem__"):
        _, fn = repo.func(f"{VEC}:Vector.{mname}")
        cfg = CFG(fn)
        for n in cfg.nodes:
            st = n.stmt
            if n.kind != "stmt" or not isinstance(st, ast.Assign):
                continue
            for t in st.targets:
                if isinstance(t, ast.Subscript) and isinstance(t.value, ast.Name) and _derives_from_data(fn, t.value.id):
                    n_cell += 1
                    x = unparse(st.value)
                    col, nd = _guards(cfg, n.id, x)
                    check.decide(col, "C11-R1", f"Vector.{mname}: cell store `{unparse(st)[:45]}` guarded by column count",
                                 f"guard on `{x}`", mod.line(st),
                                 fail_detail=f"`{x}` is stored into a cell without a dominating, un-weakened "
                                             f"`{x}.shape[1] != self.num_fields → raise` guard on the same expression")
                    check.decide(nd, "C11-R1", f"Vector.{mname}: cell store `{unparse(st)[:45]}` guarded by ndim == 2",
                                 f"guard on `{x}`", mod.line(st),
                                 fail_detail=f"`{x}` is stored into a cell without a dominating `{x}.ndim != 2 → raise` guard")
    check.floor("Vector cell stores", n_cell, 4)
    # validators: items collected into the validated structure pass the un-weakened guard
    for q, sink in (("validate_vector_data", "append"), ("validate_vector_data_for_inference", None)):
        _, fn = repo.func(f"{VAL}:{q}")
        cfg = CFG(fn)
        if sink:
            sites = [n for n in cfg.nodes if n.kind == "stmt" and any(
                isinstance(c, ast.Call) and isinstance(c.func, ast.Attribute) and c.func.attr == sink and c.args
                for c in ast.walk(n.stmt))]
            if not sites:
                raise AnalysisError(f"{q}: collection site not found")
            for n in sites:
                c = next(c for c in ast.walk(n.stmt) if isinstance(c, ast.Call) and isinstance(c.func, ast.Attribute) and c.func.attr == sink)
                x = unparse(c.args[0])
                col, _nd = _guards(cfg, n.id, x)
                check.decide(col, "C11-R1", f"{q}: collected item passes the un-weakened column-count guard", "",
                             vmod.line(n.stmt),
                             fail_detail=f"`{x}` is accepted without an un-weakened `{x}.shape[1] != num_fields → raise` "
                                         f"guard (a conjunction such as `size > 0 and …` lets malformed empty cells through)")
        else:
            # the loop must raise whenever an item is not an ndarray or has another column count
            ok = False
            for n in cfg.nodes:
                if n.kind == "test" and isinstance(n.stmt, ast.If) and any(isinstance(s, ast.Raise) for s in n.stmt.body):
                    ds = _disjuncts(n.expr)
                    for d in ds:
                        if isinstance(d, ast.Compare) and isinstance(d.ops[0], ast.NotEq) and isinstance(d.left, ast.Subscript) \
                                and unparse(d.left.value).endswith(".shape") and is_const(d.left.slice, 1) \
                                and "first" not in unparse(d.left):
                            ok = True
            for lp_ in [n for n in ast.walk(fn) if isinstance(n, ast.For)]:
                tests_ = [i for i, st_ in enumerate(lp_.body) if isinstance(st_, ast.If) and any(isinstance(x, ast.Raise) for x in st_.body) and ".shape[1]" in unparse(st_.test)]
                if tests_ and any(isinstance(x, ast.Continue) for st_ in lp_.body[:tests_[-1]] for x in ast.walk(st_)):
                    ok = False  # an early `continue` exempts the items it selects from the test just like a conjunction does
            layered = False
            if not ok:
                # layered defence: the inference validator only pre-screens; when every caller then installs the same data through the `data` setter (whose
                # validate_vector_data is held to the un-weakened guard above) on every path to its return, a laxer pre-screen admits nothing
                callers = [(mn_, f_) for mn_, f_ in methods.items() if any((call_name(c) or "") == q for c in calls_in(f_))]
                _, dset_ = repo.func(f"{VEC}:Vector.data@setter")
                strict = any((call_name(c) or "") == "validate_vector_data" for c in calls_in(dset_))
                layered = bool(callers) and strict
                for mn_, f_ in callers:
                    ccfg = CFG(f_)
                    arg_names = {unparse(c.args[0]) for c in calls_in(f_) if (call_name(c) or "") == q and c.args}
                    via = [n.id for n in ccfg.nodes if n.kind == "stmt" and isinstance(n.stmt, ast.Assign) and any(isinstance(t, ast.Attribute) and t.attr == "data" for t in n.stmt.targets)
                           and unparse(n.stmt.value) in arg_names]
                    starts = [n_ for c in calls_in(f_) if (call_name(c) or "") == q for n_ in ccfg.node_containing(c)]
                    if not via or not starts or not all(ccfg.all_paths_pass_through(s_, ccfg.exit, via) for s_ in starts):
                        layered = False
            check.decide(ok or layered, "C11-R1", f"{q}: every item is compared with the inferred column count (un-weakened)",
                         "pre-screen weakened, but every caller installs the same data through the fully validating `data` setter on every path" if layered and not ok else "",
                         vmod.line(fn),
                         fail_detail="the per-item `item.shape[1] != inferred_num_fields → raise` test is missing or weakened "
                                     "by a conjunction")

    # ---- R2 schema lock-step, uniqueness, failure atomicity ----------------------------------
    n_schema = 0
    for mname, fn in methods.items():
        is_setter = any(isinstance(d, ast.Attribute) and d.attr == "setter" for d in fn.decorator_list)
        if is_setter or mname == "__init__":
            continue
        cfg = CFG(fn)
        fstores = [n for n in cfg.nodes if n.kind == "stmt" and isinstance(n.stmt, ast.Assign)
                   and any(dotted(t) == "self._fields" for t in n.stmt.targets)]
        ustores = [n for n in cfg.nodes if n.kind == "stmt" and isinstance(n.stmt, ast.Assign)
                   and any(dotted(t) == "self._units" for t in n.stmt.targets)]
        raises = [n.id for n in cfg.nodes if n.kind == "stmt" and isinstance(n.stmt, ast.Raise)]
        for fs in fstores:
            n_schema += 1
            paired = [u for u in ustores if cfg.dominates(fs.id, u.id) or cfg.dominates(u.id, fs.id)]
            ok = bool(paired)
            detail = ""
            if ok:
                fv_, uv_ = fs.stmt.value, paired[0].stmt.value
                # same index list (comprehension over the same iterable) or same added length
                f_iters = {unparse(g.iter) for n in ast.walk(fv_) if isinstance(n, ast.ListComp) for g in n.generators}
                u_iters = {unparse(g.iter) for n in ast.walk(uv_) if isinstance(n, ast.ListComp) for g in n.generators}
                f_added = names_in(fv_) - {"self", "list"}
                u_added = names_in(uv_) - {"self", "list", "len"}
                ok = (bool(f_iters) and f_iters == u_iters) or (not f_iters and not u_iters and bool(f_added) and f_added == u_added)
                detail = f"fields from {sorted(f_iters or f_added)}, units from {sorted(u_iters or u_added)}"
            check.decide(ok, "C11-R2", f"Vector.{mname}: _fields store paired with a _units store of the same selection/length",
                         detail, mod.line(fs.stmt),
                         fail_detail=f"_fields is replaced without a matching _units update ({detail}): names and units "
                                     f"lose their one-to-one order")
            reach = cfg.reachable_from(fs.id)
            late = [r for r in raises if r in reach]
            check.decide(not late, "C11-R2", f"Vector.{mname}: no raise is reachable after the schema store (failure-atomic)",
                         "", mod.line(fs.stmt),
                         fail_detail=f"a `raise` at line(s) {[cfg.nodes[r].lineno for r in late]} is reachable after "
                                     f"self._fields was replaced: a rejected call leaves a corrupted schema behind",
                         # an explicit raise reached from the store with no restoring store in between: a CFG fact, independent of layout
                         definite=any(r in cfg.reachable_from(fs.id, avoid={o.id for o in fstores if o is not fs}) for r in late))
    n_inplace = sum(1 for f_ in methods.values() for x in ast.walk(f_) if (isinstance(x, ast.Call) and isinstance(x.func, ast.Attribute) and x.func.attr in ("extend", "append", "insert")
                                                                              and dotted(x.func.value) == "self._fields") or (isinstance(x, ast.AugAssign) and dotted(x.target) == "self._fields"))
    check.floor("schema stores outside setters", n_schema + n_inplace, 2)
    # add_fields: disjointness and uniqueness guards dominate the store
    _, af = repo.func(f"{VEC}:Vector.add_fields")
    acfg = CFG(af)
    afs = [n for n in acfg.nodes if n.kind == "stmt" and isinstance(n.stmt, ast.Assign)
           and any(dotted(t) == "self._fields" for t in n.stmt.targets)]
    if not afs:
        # the in-place form (`self._fields.extend(new)` / `self._fields += new`) is a store for the purpose of the guards
        afs = [n for n in acfg.nodes if n.kind == "stmt" and any(
            (isinstance(x, ast.Call) and isinstance(x.func, ast.Attribute) and x.func.attr in ("extend", "append", "insert") and dotted(x.func.value) == "self._fields")
            or (isinstance(x, ast.AugAssign) and dotted(x.target) == "self._fields") for x in ast.walk(n.stmt))]
    if not afs:
        raise AnalysisError("add_fields: _fields store not found")
    disjoint = unique = False
    for test, pol in acfg.guards_of(afs[0].id):
        if pol:
            continue
        txt = unparse(test)
        if "in self._fields" in txt or "in self.fields" in txt:
            disjoint = True
        if "len(set(" in txt:
            unique = True
    check.decide(disjoint, "C11-R2", "Vector.add_fields: new names are tested against existing fields before the store", "",
                 mod.line(afs[0].stmt), fail_detail="no dominating `name in self._fields → raise` guard: field names can repeat")
    check.decide(unique, "C11-R2", "Vector.add_fields: new names are tested for duplicates before the store", "",
                 mod.line(afs[0].stmt), fail_detail="no dominating `len(set(new)) != len(new) → raise` guard: field names can repeat")
    # the fields setter validates uniqueness
    _, vf = repo.func(f"{VAL}:validate_fields")
    uniq_v = any("len(set(" in unparse(n.test) and any(isinstance(s, ast.Raise) for s in n.body)
                 for n in ast.walk(vf) if isinstance(n, ast.If))
    check.decide(uniq_v, "C11-R2", "validate_fields rejects duplicate names", "", vmod.line(vf),
                 fail_detail="validate_fields has no raising duplicate test")
    _, vu = repo.func(f"{VAL}:validate_vector_units")
    len_v = any(isinstance(n.test, ast.Compare) and "len(units)" in unparse(n.test) and "num_fields" in unparse(n.test)
                and isinstance(n.test.ops[0], ast.NotEq) and any(isinstance(s, ast.Raise) for s in n.body)
                for n in ast.walk(vu) if isinstance(n, ast.If))
    check.decide(len_v, "C11-R2", "validate_vector_units rejects a unit list of another length", "", vmod.line(vu),
                 fail_detail="validate_vector_units has no raising length test")

    # ---- R3 no shared mutable state ----------------------------------------------------------
    n_def = 0
    for cls in (vcls, fv):
        for fn in [d for d in cls.body if isinstance(d, ast.FunctionDef)]:
            a = fn.args
            for p in a.posonlyargs + a.args + a.kwonlyargs:
                dflt = param_default(fn, p.arg)
                if dflt is None or not isinstance(dflt, (ast.Dict, ast.List, ast.Set)) and not (
                        isinstance(dflt, ast.Call) and call_name(dflt) in ("dict", "list", "set")):
                    continue
                n_def += 1
                escapes = []
                for n in walk_no_nested_defs(fn):
                    if isinstance(n, ast.Assign) and isinstance(n.value, ast.Name) and n.value.id == p.arg:
                        if any(isinstance(t, ast.Attribute) and dotted(t.value) == "self" for t in n.targets):
                            escapes.append(unparse(n))
                    if isinstance(n, ast.Call) and isinstance(n.func, ast.Attribute) and dotted(n.func.value) == p.arg \
                            and n.func.attr in ("append", "extend", "update", "setdefault", "add", "pop", "clear", "insert"):
                        escapes.append(unparse(n)[:40])
                check.decide(not escapes, "C11-R3", f"{cls.name}.{fn.name}: mutable default `{p.arg}` does not escape", "",
                             mod.line(fn),
                             fail_detail=f"the mutable default of `{p.arg}` is stored/mutated ({escapes}): every object "
                                         f"created with the default shares one {type(dflt).__name__.lower()}")
    check.extra["mutable_defaults_seen"] = n_def
    # positive control: the rule must recognise the defect shape on a synthetic snippet
    probe = ast.parse("class V:\n def __init__(self, metadata: dict = {}):\n  self._metadata = metadata\n")
    pfn = probe.body[0].body[0]
    hit = isinstance(param_default(pfn, "metadata"), ast.Dict) and any(
        isinstance(n, ast.Assign) and isinstance(n.value, ast.Name) and n.value.id == "metadata" for n in ast.walk(pfn))
    if not hit:
        raise AnalysisError("C11-R3 positive control failed")
    # copy(): every mutable field of the copy is fresh
    _, cp = repo.func(f"{VEC}:Vector.copy")
    data_store = [n for n in ast.walk(cp) if isinstance(n, ast.Assign) and any(
        isinstance(t, ast.Attribute) and t.attr == "_data" for t in n.targets)]
    ok = bool(data_store) and all(isinstance(n.value, ast.Call) and (call_name(n.value) or "").endswith("deepcopy")
                                  for n in data_store)
    check.decide(ok, "C11-R3", "Vector.copy: _data is deep-copied", "", mod.line(cp),
                 fail_detail="copy() does not deep-copy the cell structure: the copy shares arrays (or lists) with the source")
    # Two sites cooperate here: a validator that hands back the caller's list makes copies / slices SHARE the schema list with their source; that is only
    # observable if some method then modifies such a list in place (re-binding a new list is harmless).  Either site alone keeps the invariants.
    LMUT = ("extend", "append", "insert", "pop", "remove", "sort", "reverse", "clear")
    inplace = {}
    for mname_, f_ in methods.items():
        for x in ast.walk(f_):
            tgt_ = None
            if isinstance(x, ast.Call) and isinstance(x.func, ast.Attribute) and x.func.attr in LMUT:
                tgt_ = dotted(x.func.value)
            elif isinstance(x, ast.AugAssign):
                tgt_ = dotted(x.target)
            elif isinstance(x, (ast.Assign, ast.Delete)):
                for t_ in x.targets:
                    if isinstance(t_, ast.Subscript):
                        tgt_ = dotted(t_.value)
            if tgt_ in ("self._fields", "self._units"):
                inplace.setdefault(tgt_.split(".")[1], []).append((mname_, x))
    for q, fn_, attr_ in (("validate_fields", vf, "_fields"), ("validate_vector_units", vu, "_units")):
        rets = [n.value for n in ast.walk(fn_) if isinstance(n, ast.Return) and n.value is not None]
        fresh = all(isinstance(r, (ast.ListComp, ast.BinOp, ast.List)) or (isinstance(r, ast.Call) and call_name(r) in ("list", "sorted"))
                    for r in rets) and bool(rets)
        passthrough = [r for r in rets if isinstance(r, ast.Name) and r.id in func_params(fn_) and not definitions(fn_, r.id)]
        muts_ = inplace.get(attr_, [])
        key_ = f"{q} returns a fresh list on every path, or no method modifies `{attr_}` in place (copies and slices never observe each other's schema edits)"
        if fresh or not muts_:
            check.holds("C11-R3", key_, "fresh list" if fresh else f"the validator can hand back its argument, but `{attr_}` is only ever re-bound", vmod.line(fn_))
        elif passthrough:
            check.violated("C11-R3", key_, f"{q} returns its argument `{passthrough[0].id}` unchanged (copy()/slicing pass the source's list), and Vector.{muts_[0][0]} modifies the list in place "
                           f"(`{unparse(muts_[0][1])[:50]}`): editing the schema of a copy or slice edits the source as well — more units than fields, shared mutable state",
                           mod.line(muts_[0][1]), definite=True)
        else:
            raise AnalysisError(f"{q}: freshness of the returned list not decided while Vector.{muts_[0][0]} modifies `{attr_}` in place")
    for prop in ("fields", "units"):
        _, setter = repo.func(f"{VEC}:Vector.{prop}@setter")
        ok = any(isinstance(n, ast.Assign) and isinstance(n.value, ast.Call)
                 and call_name(n.value) in ("validate_fields", "validate_vector_units") for n in ast.walk(setter))
        check.decide(ok, "C11-R3", f"Vector.{prop} setter stores the validator's (fresh) result", "", mod.line(setter),
                     fail_detail=f"the {prop} setter stores its argument directly")
    # flatten returns fresh arrays on every path
    for q in (f"{VEC}:_FieldView.flatten", f"{VEC}:Vector.flatten"):
        _, fl = repo.func(q)
        for i, r in enumerate(n for n in walk_no_nested_defs(fl) if isinstance(n, ast.Return) and n.value is not None):
            v = r.value
            fresh = isinstance(v, ast.Call) and (call_name(v) in FRESH_CALLS or (isinstance(v.func, ast.Attribute) and v.func.attr == "copy"))
            check.decide(fresh, "C11-R3", f"{q.split(':')[1]}: return #{i + 1} is a fresh array", unparse(v)[:60], mod.line(r),
                         fail_detail=f"`return {unparse(v)[:60]}` can hand out a view of the vector's storage: writing the "
                                     f"flattened copy back after an in-place edit no longer restores the data")

    # ---- R4 rank-generic access ---------------------------------------------------------------
    n_acc = 0
    for mname, fn in methods.items():
        nest_names = {"new_data"} | {n.id for n in ast.walk(fn) if isinstance(n, ast.Name) and _derives_from_data(fn, n.id)}
        for n in ast.walk(fn):
            if isinstance(n, ast.Subscript) and isinstance(n.value, ast.Subscript):
                base = n.value.value
                b = dotted(base)
                if b == "self._data" or (isinstance(base, ast.Name) and base.id in nest_names and base.id in ("new_data",)):
                    n_acc += 1
                    check.violated("C11-R4", f"Vector.{mname}: fixed-depth cell access `{unparse(n)[:50]}`",
                                   f"`{unparse(n)}` addresses the nest with exactly two subscripts: it is wrong for every "
                                   f"vector whose number of fixed dimensions is not 2 (1-D vectors raise IndexError)",
                                   mod.line(n))
            if isinstance(n, ast.ListComp) and isinstance(n.elt, ast.BinOp) and isinstance(n.elt.op, ast.Mult) \
                    and isinstance(n.elt.left, ast.List):
                check.violated("C11-R4", f"Vector.{mname}: fixed-depth nest construction `{unparse(n)[:50]}`",
                               "the result nest is built with exactly two levels", mod.line(n))
        # generic walks present?
    generic = 0
    for mname in ("get_data", "set_data", "__getitem__", "__setitem__"):
        fn = methods[mname]
        for n in ast.walk(fn):
            if isinstance(n, ast.For) and any(
                    isinstance(s, ast.Assign) and isinstance(s.value, ast.Subscript) and isinstance(s.targets[0], ast.Name)
                    and dotted(s.value.value) == s.targets[0].id for s in n.body):
                generic += 1
    check.floor("rank-generic walks (ref = ref[i])", generic, 6)
    check.holds("C11-R4", "Vector: every cell access walks the index tuple", f"{generic} generic walks, {n_acc} fixed-depth", mod.line(vcls))
    probe = ast.parse("x = self._data[a][b]")
    if not any(isinstance(n, ast.Subscript) and isinstance(n.value, ast.Subscript) and dotted(n.value.value) == "self._data"
               for n in ast.walk(probe)):
        raise AnalysisError("C11-R4 positive control failed")

    # ---- R5 traversal agreement ---------------------------------------------------------------
    traversals = [
        (f"{VEC}:_FieldView.flatten.collect", "collect"),
        (f"{VEC}:_FieldView.set_flattened.fill", "fill"),
        (f"{VEC}:Vector.flatten.collect_arrays", "collect_arrays"),
        (f"{VEC}:_FieldView._apply_op.apply", "apply"),
        (f"{VEC}:Vector.add_fields.expand_array", "expand_array"),
        (f"{VEC}:Vector.remove_fields.prune_array", "prune_array"),
    ]
    for q, name in traversals:
        _, fn = repo.func(q)
        p = fn.args.args[0].arg
        chain = next((s for s in fn.body if isinstance(s, ast.If)), None)
        if chain is None:
            raise AnalysisError(f"{q}: dispatch not found")
        t1 = chain.test
        leaf_first = isinstance(t1, ast.Call) and call_name(t1) == "isinstance" and dotted(t1.args[0]) == p \
            and "ndarray" in unparse(t1.args[1])
        rec_ok = False
        for n in ast.walk(chain):
            it = None
            if isinstance(n, ast.For):
                it, tv, body = n.iter, n.target, n.body
                calls = [c for s in body for c in ast.walk(s) if isinstance(c, ast.Call) and call_name(c) == name]
            elif isinstance(n, ast.ListComp) and n.generators:
                it, tv = n.generators[0].iter, n.generators[0].target
                calls = [c for c in ast.walk(n.elt) if isinstance(c, ast.Call) and call_name(c) == name]
            else:
                continue
            if dotted(it) == p and isinstance(tv, ast.Name) and any(c.args and dotted(c.args[0]) == tv.id for c in calls):
                rec_ok = True
        check.decide(leaf_first and rec_ok, "C11-R5", f"{q.split(':')[1]}: ndarray is the leaf, list children visited in natural order",
                     "", mod.line(fn),
                     fail_detail="the traversal does not test for ndarray first or does not recurse over the list in its "
                                 "natural order: flattened views and write-back disagree on cell order")
    # fill consumes exactly the rows collect emits, on the same column
    _, fill = repo.func(f"{VEC}:_FieldView.set_flattened.fill")
    _, coll = repo.func(f"{VEC}:_FieldView.flatten.collect")
    ftxt, ctxt = unparse(fill), unparse(coll)
    p = fill.args.args[0].arg
    same_col = f"{p}[:, self.field_index]" in ftxt and "[:, self.field_index]" in ctxt
    rows = f"{p}.shape[0]" in ftxt
    cur = any(isinstance(n, ast.Return) and isinstance(n.value, ast.BinOp) and isinstance(n.value.op, ast.Add)
              and "cursor" in unparse(n.value) for n in ast.walk(fill))
    sl = any(isinstance(n, ast.Slice) and n.lower is not None and n.upper is not None and unparse(n.lower) == "cursor"
             and unparse(n.upper).startswith("cursor +") for n in ast.walk(fill))
    thread = any(isinstance(n, ast.Assign) and dotted(n.targets[0]) == "cursor" and isinstance(n.value, ast.Call)
                 and call_name(n.value) == "fill" for n in ast.walk(fill))
    check.decide(same_col and rows and cur and sl and thread, "C11-R5",
                 "_FieldView.set_flattened.fill consumes per leaf exactly the rows flatten.collect emits (same column, cursor threaded)",
                 "", mod.line(fill),
                 fail_detail="fill and collect disagree (column, row count per leaf, cursor slice or cursor threading)")

    # ---- R7 fancy assignment enumerates the selection ------------------------------------------
    n_f = 0
    for mname in ("set_data", "__setitem__"):
        fn = methods[mname]
        for lp in [n for n in ast.walk(fn) if isinstance(n, ast.For)]:
            it = lp.iter
            enum = isinstance(it, ast.Call) and call_name(it) == "enumerate" and it.args and isinstance(it.args[0], ast.Call) \
                and (call_name(it.args[0]) or "").endswith("ndindex")
            plain = isinstance(it, ast.Call) and (call_name(it) or "").endswith("ndindex")
            if not (enum or plain):
                continue
            vsubs = [n for s in lp.body for n in ast.walk(s) if isinstance(n, ast.Subscript) and dotted(n.value) == "value"]
            if not vsubs:
                continue
            n_f += 1
            counter = lp.target.elts[0].id if enum and isinstance(lp.target, ast.Tuple) and isinstance(lp.target.elts[0], ast.Name) else None
            ok = counter is not None and all(isinstance(v.slice, ast.Name) and v.slice.id == counter for v in vsubs)
            check.decide(ok, "C11-R7", f"Vector.{mname}: the k-th value goes to the k-th selected cell", "", mod.line(lp),
                         fail_detail=f"inside the ndindex loop the value list is indexed with `{unparse(vsubs[0].slice)}` "
                                     f"instead of the running position in the selection: selections that are fancy in a "
                                     f"later dimension receive the wrong arrays")
    check.floor("fancy assignment loops", n_f, 2)

    # ---- R9 the nest builder creates a distinct list object at every level and position ----------------------------------
    _, nl = repo.func(f"{VEC}:nested_list")
    check.analysed(f"{VEC}:nested_list")
    recursive = [c for c in calls_in(nl) if call_name(c) == "nested_list"]
    comps = [n for n in ast.walk(nl) if isinstance(n, ast.ListComp)]
    fresh, why_ = None, ""
    if recursive and all(any(any(x is c for x in ast.walk(cp.elt)) for cp in comps) for c in recursive):
        fresh, why_ = True, "every element is built by its own recursive call"
    else:
        shallow = []
        for cp in comps:
            for x in ast.walk(cp.elt):
                if isinstance(x, ast.Call) and ((isinstance(x.func, ast.Name) and x.func.id in ("list", "tuple")) or (isinstance(x.func, ast.Attribute) and x.func.attr == "copy")
                                                or (call_name(x) or "") == "copy.copy"):
                    shallow.append(unparse(x))
                if isinstance(x, ast.Subscript) and isinstance(x.slice, ast.Slice) and x.slice.lower is None and x.slice.upper is None:
                    shallow.append(unparse(x))
            if isinstance(cp.elt, ast.Name) and not any(isinstance(t, ast.Name) and t.id == cp.elt.id for g in cp.generators for t in ast.walk(g.target)):
                shallow.append(f"{cp.elt.id} (the same object for every element)")
        repl = [unparse(n)[:40] for n in ast.walk(nl) if isinstance(n, ast.BinOp) and isinstance(n.op, ast.Mult) and any(isinstance(sd, ast.List) for sd in (n.left, n.right))]
        deep = any((call_name(c) or "") == "copy.deepcopy" for c in calls_in(nl))
        if (shallow or repl) and not deep:
            fresh, why_ = False, f"{(shallow + repl)[0]}: a shallow copy / replication shares the lists one level further down"
        elif deep:
            fresh, why_ = True, "levels are deep-copied"
    if fresh is None:
        raise AnalysisError("nested_list: construction idiom not recognised")
    check.decide(fresh, "C11-R9", "nested_list: every position of every level is its own list object", why_, mod.line(nl),
                 fail_detail=f"{why_}: with three or more fixed dimensions v[0, i, j] and v[1, i, j] are one storage slot — setting one cell populates others")

    # ---- R10 assigning to a field always writes: the string arm of __setitem__ reaches set_flattened on every path that returns ---------
    from ..core.cfg import CFG as _CFG
    si = methods["__setitem__"]
    scfg = _CFG(si)
    kparam = func_params(si)[1]
    arm = next((n for n in walk_no_nested_defs(si) if isinstance(n, ast.If) and isinstance(n.test, ast.Call) and call_name(n.test) == "isinstance" and n.test.args
                and dotted(n.test.args[0]) == kparam and "str" in unparse(n.test.args[1])), None)
    if arm is None:
        raise AnalysisError("Vector.__setitem__: string-key arm not found")
    tnode = [n.id for n in scfg.nodes if n.kind == "branch" and n.stmt is arm and n.polarity]
    writes = [n for c in calls_in(si) if isinstance(c.func, ast.Attribute) and c.func.attr == "set_flattened" for n in scfg.node_containing(c)]
    if not tnode:
        raise AnalysisError("Vector.__setitem__: branch node of the string-key arm not found")
    check.decide(bool(writes) and scfg.all_paths_pass_through(tnode[0], scfg.exit, writes), "C11-R10", "Vector.__setitem__[field name]: every path that returns has written the field (set_flattened)", "",
                 mod.line(arm), fail_detail="a path through the field-name arm returns without set_flattened(value): `v['w'] = v['x']` (a view of ANOTHER field of the same vector) silently does nothing")

    # ---- R8 selection results hold the source cells themselves --------------------------------------
    # In the slicing arm of __getitem__ every value stored into the result nest must be a cell reached by walking self._data with
    # the per-axis index.  Going through get_data() is not equivalent: it returns the bare cell (not a one-element list) when the
    # selection has exactly one cell, so `cells[k]` then denotes a ROW of that cell.
    # enumeration order of the addressed cells: np.ndindex / itertools.product / nested loops are row-major over the index arrays; np.meshgrid
    # is row-major only with indexing='ij' — its default 'xy' exchanges the first two axes, so the k-th returned cell is not the k-th addressed one.
    def _xy_meshgrids(fn_):
        out = []
        for c_ in calls_in(fn_):
            if (call_name(c_) or "") in ("np.meshgrid", "numpy.meshgrid") and (len(c_.args) >= 2 or any(isinstance(a_, ast.Starred) for a_ in c_.args)):
                ix = kwarg(c_, "indexing")
                if ix is None or not is_const(ix, "ij"):
                    out.append(c_)
        return out
    probe_ = ast.parse("def f(a):\n    for s in zip(*(g.ravel() for g in np.meshgrid(*a))):\n        pass\n").body[0]
    if len(_xy_meshgrids(probe_)) != 1:
        raise AnalysisError("C11-R8 self-test: the meshgrid recogniser does not match its positive example")
    n_enum = 0
    for mname_, fn_ in methods.items():
        enum_ = [c_ for c_ in calls_in(fn_) if (call_name(c_) or "").split(".")[-1] in ("ndindex", "product", "meshgrid")]
        n_enum += len(enum_)
        for c_ in _xy_meshgrids(fn_):
            if len(c_.args) == 2 and not any(isinstance(a_, ast.Starred) for a_ in c_.args):
                # two explicit vectors: 'xy' with the arguments AND the results exchanged is the same pair of arrays — not decided here
                raise AnalysisError(f"Vector.{mname_}: `{unparse(c_)[:60]}` with the default indexing and two explicit arguments is not decided (argument / result order would have to be traced)")
            check.violated("C11-R8", f"Vector.{mname_}: addressed cells are enumerated in row-major order of the index arrays",
                           f"`{unparse(c_)[:60]}` uses meshgrid's default indexing='xy': the first two fixed axes are exchanged, the flat order of the cells is column-major over them",
                           mod.line(c_), definite=True)
    check.floor("cell enumerations (ndindex / product / meshgrid) in Vector", n_enum, 3)
    gi = methods["__getitem__"]
    stores = []
    for lp in [n for n in walk_no_nested_defs(gi) if isinstance(n, ast.For)]:
        if not (isinstance(lp.iter, ast.Call) and ((call_name(lp.iter) or "").endswith("ndindex") or
                                                   (call_name(lp.iter) == "enumerate" and lp.iter.args and isinstance(lp.iter.args[0], ast.Call)
                                                    and (call_name(lp.iter.args[0]) or "").endswith("ndindex")))):
            continue
        for st in lp.body:
            if isinstance(st, ast.Assign) and isinstance(st.targets[0], ast.Subscript) and isinstance(st.targets[0].value, ast.Name):
                stores.append((lp, st))
    check.floor("result-nest stores in Vector.__getitem__", len(stores), 1)

    def cell_provenance(fn, e, seen=()):
        """'data' when e is self._data or a subscript chain / nest walk rooted there; else a description of the foreign root."""
        if dotted(e) == "self._data":
            return "data"
        if isinstance(e, ast.Subscript):
            return cell_provenance(fn, e.value, seen)
        if isinstance(e, ast.Name):
            if e.id in seen:
                return "data"  # the walk `ref = ref[i]`: decided by the other definitions
            dd = definitions(fn, e.id)
            if not dd:
                return f"`{e.id}` (no definition in the method)"
            for d in dd:
                if not isinstance(d, ast.AST):
                    return f"`{e.id}` ← {d!r}"
                r = cell_provenance(fn, d, seen + (e.id,))
                if r != "data":
                    return r
            return "data"
        return f"`{unparse(e)[:60]}`"
    for lp, st in stores:
        prov = cell_provenance(gi, st.value)
        check.decide(prov == "data", "C11-R8", "Vector.__getitem__[slice/fancy]: the value stored per selected position is the source cell reached by walking self._data", "",
                     mod.line(st), fail_detail=f"`{unparse(st)[:70]}` stores a value rooted at {prov}, not at self._data: an accessor whose return shape depends on the selection size "
                                               f"(get_data returns the bare cell for a single selected cell) hands back a row of the cell instead of the cell",
                     definite="self.get_data(" in prov)      # provenance fact: the cells come from the accessor whose return type depends on the selection size


MANIFEST = {
    "text": "Decides the structural invariants on the source of vector.py/validators.py: every cell store is dominated by the "
            "un-weakened ndim/column-count guard on the very expression stored; _fields and _units are always replaced "
            "together from the same selection, behind uniqueness guards, with no raise reachable afterwards; no mutable "
            "default escapes into object state; copy deep-copies cells and setters store fresh lists; flatten returns fresh "
            "arrays on every path; cell access walks the index tuple (no fixed-depth chains); the six recursive traversals "
            "visit list children in natural order with ndarray as the leaf and fill/collect agree; fancy assignment "
            "enumerates the selection.",
    "note": "Not decided: numerical content of field arithmetic, NumPy's own indexing semantics. Advisory only: "
            "validate_vector_data does not test ndim == 2; __setitem__'s single-cell arm does not check index arity.",
    "technique": "CFG dominance of guards + reachability (failure atomicity) + sibling/traversal shape agreement (AST)",
}
MANIFEST["text"] += " Also: in slicing/fancy selection the stored value is the source cell reached by walking self._data (provenance), never an element of an accessor's return value (R8)."
MANIFEST["text"] += ' An explicit raise reachable from the schema store with no restoring store in between is a CFG fact and is reported as definite.'
MANIFEST["text"] += " R8 also: cells are enumerated row-major over the index arrays — np.meshgrid without indexing='ij' exchanges the first two axes (recogniser self-tested on an embedded positive example each run)."
MANIFEST["text"] += " R4 also: _FieldView.__init__ assigns nothing derived from vector._data (a field handle is a view, not a snapshot of the cells)."
MANIFEST["text"] += ' R11: no derived per-instance cache survives a schema change (every method that re-binds or edits the field list resets any attribute filled with entries computed from it). R3 is a coupled rule: a validator that can return its argument is a violation only together with an in-place edit of the schema lists.'
MANIFEST["text"] += ' R1 treats the inference pre-screen and the fully validating data setter as layered defences (either on every path suffices); an early continue counts as weakening.'
