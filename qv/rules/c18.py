"""C18 — centre-of-mass origin: slot rule, sibling arms, batch coverage, sampling convention
(E5, E7)."""
from __future__ import annotations

import ast
from typing import Optional

from ..core.repo import (AnalysisError, Repo, call_name, calls_in, definitions, dotted, func_params, is_const,
                         kwarg, names_in, unparse, walk_no_nested_defs)
from ..domains.kat import COL, ROW, Comp, Ext, KAT, Pair, Seq
from .c09 import _partition_idiom

OM = "quantem.diffractive_imaging.origin_models"
DM = "quantem.diffractive_imaging.dataset_models"
PU = "quantem.diffractive_imaging.ptycho_utils"

EXPLANATION = (
    "kinded-axis analysis of the four centre-of-mass implementations: the coordinate grid feeding "
    "output slot 0 is the row-axis grid (laid along array axis −2 with the row extent), slot 1 the "
    "column grid, grids are pure coordinates, and numerator weights equal the summand of the "
    "normalising total; the vectorised and looped arms agree; batching covers every pattern and "
    "reduces only detector axes; the periodic grid_sample shift keeps (row, col) order consistent "
    "with the (N−1) normalisation of align_corners=True"
)


def _sum_parts(e: ast.AST):
    """(summand, dims-text) of a sum call in function or method form, else None."""
    if isinstance(e, ast.Call):
        cn = call_name(e) or ""
        if cn.split(".")[-1] == "sum":
            if cn in ("np.sum", "torch.sum", "af.sum", "xp.sum") and e.args:
                d = kwarg(e, "axis") or kwarg(e, "dim") or (e.args[1] if len(e.args) > 1 else None)
                return e.args[0], unparse(d) if d is not None else None
            if isinstance(e.func, ast.Attribute) and not cn.startswith(("np.", "torch.", "af.")):
                d = kwarg(e, "axis") or kwarg(e, "dim") or (e.args[0] if e.args else None)
                return e.func.value, unparse(d) if d is not None else None
    return None


def _factors(e: ast.AST) -> list[ast.AST]:
    if isinstance(e, ast.BinOp) and isinstance(e.op, ast.Mult):
        return _factors(e.left) + _factors(e.right)
    return [e]


def _strip_bcast(e: ast.AST) -> ast.AST:
    """X[None, :, :] / X[..., None, :, :] → X (pure broadcasting subscripts)."""
    while isinstance(e, ast.Subscript):
        sl = e.slice
        elts = sl.elts if isinstance(sl, ast.Tuple) else [sl]
        if all(is_const(x, None) or is_const(x, Ellipsis) or (isinstance(x, ast.Slice) and x.lower is None and x.upper is None and x.step is None)
               for x in elts):
            e = e.value
        else:
            break
    return e


class Region:
    """Definitions restricted to a list of statements (one arm of an if)."""

    def __init__(self, fn: ast.AST, stmts: list[ast.stmt], common: list[ast.stmt]):
        self.fn = fn
        self.mod = ast.Module(body=list(common) + list(stmts), type_ignores=[])

    def defs(self, name: str) -> list:
        return [d for d in definitions(self.mod, name, nested=False)]

    def subscript_stores(self, name: str) -> list[ast.Assign]:
        return [n for n in ast.walk(self.mod) if isinstance(n, ast.Assign) and isinstance(n.targets[0], ast.Subscript)
                and dotted(n.targets[0].value) == name]


def _com_of(region: Region, kat: KAT, name_or_expr, label: str):
    """Analyse one centre-of-mass component.  Returns dict(axis=…, pure=…, weights=…, total=…, dims=…)."""
    exprs: list[ast.AST] = []
    divisors: list[ast.AST] = []
    if isinstance(name_or_expr, str):
        for d in region.defs(name_or_expr):
            if isinstance(d, ast.AST):
                exprs.append(d)
            elif d.__class__.__name__ == "AugValue" and isinstance(d.op, ast.Div):
                divisors.append(d.value)
        for st in region.subscript_stores(name_or_expr):
            exprs.append(st.value)
    else:
        exprs.append(name_or_expr)
    exprs = [e for e in exprs if not (isinstance(e, ast.Call) and (call_name(e) or "").split(".")[-1] in ("zeros", "empty", "zeros_like", "empty_like"))]
    if len(exprs) != 1:
        raise AnalysisError(f"{label}: expected one defining expression, found {[unparse(e)[:40] for e in exprs]}")
    e = exprs[0]
    if isinstance(e, ast.BinOp) and isinstance(e.op, ast.Div):
        divisors.append(e.right)
        e = e.left
    sp = _sum_parts(e)
    if sp is None:
        raise AnalysisError(f"{label}: numerator `{unparse(e)[:60]}` is not a sum")
    summand, dims = sp
    facs = _factors(summand)
    grid, weights = [], []
    for f in facs:
        base = _strip_bcast(f)
        v = kat.ev(base)
        if isinstance(v, (Comp, Seq)):
            grid.append((f, base, v))
        else:
            weights.append(unparse(_strip_bcast(f)))
    if len(grid) != 1:
        raise AnalysisError(f"{label}: expected exactly one coordinate grid factor in `{unparse(summand)[:60]}`")
    f, base, v = grid[0]
    # purity: the grid's definition closure must not involve data (masks, intensities)
    impure = []
    seen: set[str] = set()

    def names_outside_shape(x: ast.AST):
        stack = [x]
        while stack:
            n = stack.pop()
            if isinstance(n, ast.Attribute) and n.attr in ("shape", "ndim", "device", "dtype"):
                continue  # X.shape[...] only reads geometry, not data
            if isinstance(n, ast.Name):
                yield n
            stack.extend(ast.iter_child_nodes(n))

    def walk(x: ast.AST):
        for n in names_outside_shape(x):
            if isinstance(n, ast.Name) and n.id not in seen:
                seen.add(n.id)
                val = kat.env.get(n.id)
                dd = [d for d in region.defs(n.id) if isinstance(d, ast.AST)]
                tup = [d for d in region.defs(n.id) if d.__class__.__name__ == "TupleItem"]
                if not dd and not tup:
                    if val is None and n.id not in ("np", "torch", "af", "xp", "self", "None"):
                        impure.append(n.id)
                for d in dd:
                    walk(d)
                for d in tup:
                    walk(d.value)
    walk(base)
    impure = [i for i in impure if kat.env.get(i) is None]
    if len(divisors) != 1:
        raise AnalysisError(f"{label}: expected one normalising divisor, found {len(divisors)}")
    dv = _strip_sub(divisors[0])
    dsum = None
    if isinstance(dv, ast.Name):
        dd = [d for d in region.defs(dv.id) if isinstance(d, ast.AST)]
        if len(dd) == 1:
            dsum = _sum_parts(dd[0])
    else:
        dsum = _sum_parts(dv)
    if dsum is None:
        raise AnalysisError(f"{label}: divisor `{unparse(dv)[:50]}` is not a sum")
    total = sorted(unparse(_strip_bcast(x)) for x in _factors(dsum[0]))
    # the same NAME is the same VALUE only if it is not rebound / updated in place between the two uses
    lt, ln = getattr(dsum[0], "lineno", None), getattr(e, "lineno", None)
    stale = []
    if lt is not None and ln is not None and lt != ln:
        lo, hi = min(lt, ln), max(lt, ln)
        wnames = {x.id for w in _factors(summand) for x in ast.walk(_strip_bcast(w)) if isinstance(x, ast.Name)} & \
                 {x.id for w in _factors(dsum[0]) for x in ast.walk(_strip_bcast(w)) if isinstance(x, ast.Name)}
        for n in ast.walk(region.mod):
            if isinstance(n, (ast.Assign, ast.AugAssign)) and lo <= n.lineno < hi and n.lineno != lt:
                tg = n.targets[0] if isinstance(n, ast.Assign) else n.target
                for x in ast.walk(tg):
                    if isinstance(x, ast.Name) and x.id in wnames and (isinstance(tg, ast.Name) or (isinstance(tg, ast.Subscript) and x is tg.value)):
                        stale.append((x.id, n.lineno, unparse(n)[:60]))
    return {"grid": v, "grid_text": unparse(base), "impure": impure, "weights": sorted(weights), "total": total,
            "dims": dims, "total_dims": dsum[1], "node": e, "stale": stale}


def _strip_sub(e: ast.AST) -> ast.AST:
    return _strip_bcast(e)


def _check_component(check, mod, rule, label, slot, info) -> None:
    want = ROW if slot == 0 else COL
    g = info["grid"]
    axis = g.axis if isinstance(g, Comp) else None
    vary = g.vary if isinstance(g, Comp) else None
    ok = axis == want
    check.decide(ok, rule, f"{label}: output slot {slot} is weighted with the {want}-axis grid", f"grid `{info['grid_text']}` is {axis}-axis",
                 mod.line(info["node"]),
                 fail_detail=f"slot {slot} (the {want} coordinate) is computed from `{info['grid_text']}`, the {axis}-axis grid: row and "
                             f"column of the centre of mass are swapped")
    check.decide(not info["impure"], rule, f"{label}: slot {slot} grid is a pure coordinate grid", "", mod.line(info["node"]),
                 fail_detail=f"the coordinate factor `{info['grid_text']}` depends on {info['impure']}: weights folded into the grid are "
                             f"missing from the normalising total")
    check.decide(not info.get("stale"), rule, f"{label}: slot {slot} numerator and normalising total read the same version of the weights", "", mod.line(info["node"]),
                 fail_detail=f"{[(n, t) for n, _, t in info.get('stale', [])]} rebinds/updates the weights between the normalising total and the numerator: "
                             f"the moments are divided by the total of a different (e.g. unmasked) intensity")
    check.decide(info["weights"] == info["total"], rule, f"{label}: slot {slot} numerator weights = summand of the normalising total",
                 f"{info['weights']}", mod.line(info["node"]),
                 fail_detail=f"numerator weights {info['weights']} but the total sums {info['total']}: the result is not the "
                             f"intensity-weighted mean")


def run(check, repo: Repo) -> None:
    omod, cfn = repo.func(f"{OM}:CenterOfMassOriginModel.calculate_origin")
    dmod, sfn = repo.func(f"{DM}:PtychographyDatasetRaster._set_intensities_com")
    pmod, gfn = repo.func(f"{PU}:get_com_2d")
    _, shf = repo.func(f"{OM}:CenterOfMassOriginModel.shift_origin_to")
    _, fitf = repo.func(f"{OM}:CenterOfMassOriginModel.fit_origin_background")
    check.analysed(f"{OM}:CenterOfMassOriginModel.calculate_origin", f"{OM}:CenterOfMassOriginModel.shift_origin_to",
                   f"{OM}:CenterOfMassOriginModel.fit_origin_background", f"{DM}:PtychographyDatasetRaster._set_intensities_com",
                   f"{PU}:get_com_2d")
    n_impl = 0

    # ---- calculate_origin --------------------------------------------------------------------------
    k = KAT(cfn).run()
    for n, m in k.clashes:
        check.violated("C18-R1", f"calculate_origin: axis clash `{unparse(n)[:50]}`", m, omod.line(n), definite=True)
    loop = next((n for n in walk_no_nested_defs(cfn) if isinstance(n, ast.For)), None)
    if loop is None:
        raise AnalysisError("calculate_origin: batch loop not found")
    reg = Region(cfn, loop.body, [s for s in cfn.body if s is not loop])
    stores = [s for s in loop.body if isinstance(s, ast.Assign) and isinstance(s.targets[0], ast.Subscript)
              and isinstance(s.targets[0].slice, ast.Tuple) and len(s.targets[0].slice.elts) == 2
              and isinstance(s.targets[0].slice.elts[1], ast.Constant)]
    slots = {}
    for s in stores:
        slots[s.targets[0].slice.elts[1].value] = s
    if sorted(slots) != [0, 1]:
        raise AnalysisError("calculate_origin: stores to slots 0 and 1 not found")
    n_impl += 1
    infos = {}
    for slot, s in slots.items():
        infos[slot] = _com_of(reg, k, s.value, f"calculate_origin[slot {slot}]")
        _check_component(check, omod, "C18-R1", "CenterOfMassOriginModel.calculate_origin", slot, infos[slot])
    # batch separability: reductions over detector axes only, rows addressed by the batch index
    dims_ok = all(i["dims"] in ("(-2, -1)", "(-1, -2)") and i["total_dims"] in ("(-2, -1)", "(-1, -2)") for i in infos.values())
    src = [d for d in definitions(cfn, "intensities") if isinstance(d, ast.AST)]
    src_ok = len(src) == 1 and isinstance(src[0], ast.Subscript)
    idx_ok = src_ok and all(unparse(s.targets[0].slice.elts[0]) == unparse(src[0].slice) for s in stores)
    check.decide(dims_ok and idx_ok and src_ok, "C18-R3", "calculate_origin: per-pattern reduction over detector axes only; rows read and written by the same batch index",
                 "", omod.line(loop),
                 fail_detail="a reduction touches the batch axis, or patterns are read and written with different indices: the result depends on the batch size")
    _batch_coverage(check, omod, cfn, loop, "calculate_origin")

    # ---- R8 the first moments are formed in a floating type (coupled) ------------------------------------
    # Σ I·k over a detector exceeds the range of 8/16-bit counts at once.  Two guarantees: the coordinate grids kr/kc are created in NumPy's default integer/float type
    # (int64 / float64 — the products are then at least 64 bit), or the stored patterns are always floating (the intensities_4d setter converts to the configured real
    # dtype).  Grids created in the DATA's dtype together with a setter that keeps integer input wrap around silently.
    grids = [(nm_, d_) for nm_ in ("kr", "kc") for d_ in definitions(sfn, nm_) if isinstance(d_, ast.Call) and (call_name(d_) or "").endswith("arange")]
    _dm8, iset = repo.func(f"{DM}:PtychographyDatasetRaster.intensities_4d@setter") if repo.has(f"{DM}:PtychographyDatasetRaster.intensities_4d@setter") else repo.func(f"{DM}:PtychographyDatasetBase.intensities_4d@setter")
    vcalls = [c for c in calls_in(iset) if (call_name(c) or "").endswith("validate_array")]
    float_store = False
    for c in vcalls:
        dt_ = kwarg(c, "dtype") or (c.args[2] if len(c.args) > 2 else None)
        float_store = dt_ is not None and "dtype_real" in unparse(dt_) and not isinstance(dt_, ast.IfExp)
    data_typed = [(nm_, d_) for nm_, d_ in grids if kwarg(d_, "dtype") is not None and "intensities" in unparse(kwarg(d_, "dtype"))]
    key8 = "_set_intensities_com: the products I·k are formed in a type that cannot wrap around (default-typed grids, or patterns stored as floats)"
    if grids:
        if data_typed and not float_store:
            check.violated("C18-R8", key8, f"`{data_typed[0][0]} = {unparse(data_typed[0][1])[:60]}` takes the dtype of the data and the intensities_4d setter keeps integer input: for uint8/uint16 "
                           f"patterns `I * k` wraps around in the looped arm — the centre of mass is silently wrong and disagrees with the vectorised arm", dmod.line(data_typed[0][1]), definite=True)
        else:
            check.holds("C18-R8", key8, f"grids in the data's dtype: {bool(data_typed)}; patterns stored as floats: {float_store}", dmod.line(sfn))
    # ---- _set_intensities_com (vectorised and looped arms) --------------------------------------------
    ks = KAT(sfn).run()
    for n, m in ks.clashes:
        check.violated("C18-R1", f"_set_intensities_com: axis clash `{unparse(n)[:50]}`", m, dmod.line(n), definite=True)
    arm_if = next((n for n in walk_no_nested_defs(sfn) if isinstance(n, ast.If) and unparse(n.test) in ("vectorized_calculation", "not vectorized_calculation")), None)
    if arm_if is None:
        raise AnalysisError("_set_intensities_com: vectorised/looped dispatch not found")
    vec, lop = (arm_if.body, arm_if.orelse) if unparse(arm_if.test) == "vectorized_calculation" else (arm_if.orelse, arm_if.body)
    common = []
    for s in sfn.body:
        if s is arm_if:
            break
        common.append(s)
    tup = [n for n in ast.walk(sfn) if isinstance(n, ast.Assign) and dotted(n.targets[0]) == "self.com_measured"]
    if len(tup) != 1 or not isinstance(tup[0].value, ast.Tuple) or len(tup[0].value.elts) != 2:
        raise AnalysisError("_set_intensities_com: self.com_measured = (r, c) not found")
    slot_names = [unparse(e) for e in tup[0].value.elts]
    # the detector mask is a WEIGHT in both arms (it multiplies the intensities); comparing it with a threshold or indexing with it binarises
    # fractional weights and the two arms (and the float64 definition) disagree
    mparams = [p_ for p_ in func_params(sfn) if "mask" in p_]
    for arm_label, stmts in (("vectorised", vec), ("looped", lop)):
        fake_ = ast.Module(body=list(stmts), type_ignores=[])
        for mp in mparams:
            uses_ = [x for x in ast.walk(fake_) if isinstance(x, ast.Name) and x.id == mp]
            if not uses_:
                continue
            bad_ = []
            for u_ in uses_:
                # climb through attribute/method chains on the mask (dp_mask.ravel(), dp_mask[None], dp_mask.astype(...))
                top_ = u_
                par_ = getattr(top_, "_parent", None)
                while isinstance(par_, (ast.Attribute, ast.Subscript, ast.Call)) and (getattr(par_, "value", None) is top_ or getattr(par_, "func", None) is top_):
                    top_, par_ = par_, getattr(par_, "_parent", None)
                if isinstance(par_, ast.Compare):
                    if len(par_.ops) == 1 and isinstance(par_.ops[0], (ast.Is, ast.IsNot)):
                        continue  # presence test
                    bad_.append(unparse(par_)[:50])
                elif isinstance(par_, ast.Subscript) and par_.slice is top_ or (isinstance(par_, ast.Tuple) and isinstance(getattr(par_, "_parent", None), ast.Subscript)):
                    bad_.append(unparse(getattr(par_, "_parent", par_) if isinstance(par_, ast.Tuple) else par_)[:50])
                elif isinstance(par_, ast.Call) and (call_name(par_) or "").split(".")[-1] in ("astype", "where", "nonzero", "flatnonzero") and any("bool" in unparse(a_) for a_ in par_.args):
                    bad_.append(unparse(par_)[:50])
            check.decide(not bad_, "C18-R2", f"_set_intensities_com[arm={arm_label}]: `{mp}` enters as a multiplicative weight (never thresholded or used as an index)", "", dmod.line(stmts[0]),
                         fail_detail=f"{bad_}: a fractional-weight mask is treated as binary in this arm — the centre of mass is no longer the mask-weighted mean and the vectorised and looped "
                                     f"paths disagree", definite=True)   # a positively identified use kind (comparison / index), not an idiom
    # the surface fit used by the dataset model (ptycho_utils.fit_origin): the coordinate grids must have the layout of the measured origin maps —
    # the row grid varies along axis 0 and runs over shape[0].  np.indices is 'ij' by definition; np.meshgrid defaults to 'xy' (transposed).
    PU_ = "quantem.diffractive_imaging.ptycho_utils"
    fmod_, ffn_ = repo.func(f"{PU_}:fit_origin")
    check.analysed(f"{PU_}:fit_origin")
    kf = KAT(ffn_, index_axes={"qr0_meas": {0: ROW, 1: COL}, "qc0_meas": {0: ROW, 1: COL}}, image_like=("qr0_meas", "qc0_meas")).run()
    for n_, m_ in kf.clashes:
        check.violated("C18-R5", f"fit_origin: axis clash `{unparse(n_)[:60]}`", m_ + " — on a non-square scan the fitted surface is evaluated on the transposed grid", fmod_.line(n_), definite=True)
    gr_, gc_ = kf.env.get("r"), kf.env.get("c")
    if not (isinstance(gr_, Comp) and isinstance(gc_, Comp)):
        if not kf.clashes:
            raise AnalysisError(f"fit_origin: kinds of the coordinate grids r / c not derivable ({gr_}, {gc_})")
    else:
        check.decide((gr_.axis, gr_.vary, gc_.axis, gc_.vary) == (ROW, -2, COL, -1), "C18-R5", "fit_origin: the row grid varies along axis 0 over shape[0], the column grid along axis 1 over shape[1]",
                     f"{gr_} {gc_}", fmod_.line(ffn_), definite=True, fail_detail=f"r is {gr_}, c is {gc_}: the grids are transposed with respect to the measured origin maps")
    arm_infos = {}
    for arm_label, stmts in (("vectorised", vec), ("looped", lop)):
        inner = stmts
        reg = Region(sfn, inner, common)
        n_impl += 1
        for slot, nm in enumerate(slot_names):
            info = _com_of(reg, ks, nm, f"_set_intensities_com[{arm_label}][slot {slot}]")
            arm_infos[(arm_label, slot)] = info
            _check_component(check, dmod, "C18-R1", f"PtychographyDatasetRaster._set_intensities_com[arm={arm_label}]", slot, info)
    for slot in (0, 1):
        a, b = arm_infos[("vectorised", slot)], arm_infos[("looped", slot)]
        ga, gb = a["grid"], b["grid"]
        same = isinstance(ga, Comp) and isinstance(gb, Comp) and ga.axis == gb.axis
        check.decide(same, "C18-R2", f"_set_intensities_com: vectorised and looped arms use the same grid for slot {slot}",
                     f"{a['grid_text']} / {b['grid_text']}", dmod.line(b["node"]),
                     fail_detail=f"slot {slot}: the vectorised arm uses `{a['grid_text']}`, the looped arm `{b['grid_text']}` — the two "
                                 f"code paths return different centres of mass")

    # ---- get_com_2d -------------------------------------------------------------------------------------
    kg = KAT(gfn).run()
    for n, m in kg.clashes:
        check.violated("C18-R1", f"get_com_2d: axis clash `{unparse(n)[:50]}`", m, pmod.line(n), definite=True)
    st = [c for c in calls_in(gfn) if call_name(c) in ("np.stack", "torch.stack") and c.args and isinstance(c.args[0], (ast.List, ast.Tuple))]
    if len(st) != 1:
        raise AnalysisError("get_com_2d: coordinate stack not found")
    vals = [kg.ev(e) for e in st[0].args[0].elts]
    n_impl += 1
    for slot, v in enumerate(vals):
        want = ROW if slot == 0 else COL
        ok = isinstance(v, Comp) and v.axis == want
        check.decide(ok, "C18-R1", f"get_com_2d: output slot {slot} is weighted with the {want}-axis grid",
                     unparse(st[0].args[0].elts[slot]), pmod.line(st[0]),
                     fail_detail=f"slot {slot} uses `{unparse(st[0].args[0].elts[slot])}` ({getattr(v, 'axis', '?')}-axis)")
    check.floor("centre-of-mass implementations analysed", n_impl, 4)

    # ---- R6 the pipeline entry recomputes the measured origin from the CURRENT data on every call ----------------------------------
    from ..core.cfg import CFG
    _, fwd = repo.func(f"{OM}:CenterOfMassOriginModel.forward")
    check.analysed(f"{OM}:CenterOfMassOriginModel.forward")
    fcfg = CFG(fwd)
    cal = [n for c in calls_in(fwd) if (call_name(c) or "") == "self.calculate_origin" for n in fcfg.node_containing(c)]
    check.decide(bool(cal) and fcfg.all_paths_pass_through(fcfg.entry, fcfg.exit, cal), "C18-R6", "CenterOfMassOriginModel.forward measures the origins on every call (no 'already measured' shortcut)", "",
                 omod.line(fwd), fail_detail="a path through forward() skips calculate_origin(): after the tensor is replaced (its setter does not invalidate the cached origins) measured and fitted "
                                             "origins and the shifted patterns describe the OLD data — not the intensity-weighted mean coordinate of the current patterns")

    # ---- R4 shift_origin_to -------------------------------------------------------------------------------
    _shift_rule(check, omod, shf)

    # ---- R5 constant fit ------------------------------------------------------------------------------------
    const_arm = None
    for n in ast.walk(fitf):
        if isinstance(n, ast.If) and "'constant'" in unparse(n.test):
            const_arm = n
    ok = const_arm is not None and any(isinstance(s, ast.Assign) and unparse(s.value) == "self.origin_measured.mean(0)" for s in const_arm.body)
    check.decide(ok, "C18-R5", "fit_origin_background[constant] = mean of the measured origins over positions", "", omod.line(const_arm or fitf),
                 fail_detail="the constant fit is not self.origin_measured.mean(0)")
    # inferred probe positions: flattened in the same (row-major over the two scan axes) order as the measured origins
    mg = [c for c in calls_in(fitf) if (call_name(c) or "").endswith("meshgrid")]
    if len(mg) != 1 or len(mg[0].args) != 2:
        raise AnalysisError("fit_origin_background: the meshgrid of inferred scan positions was not found")

    def scan_axis(e, depth=0):
        """index into dataset.shape[:2] whose extent the 1-D coordinate vector e runs over"""
        if depth > 5:
            return None
        if isinstance(e, ast.Name):
            dd = definitions(fitf, e.id)
            if len(dd) == 1 and dd[0].__class__.__name__ == "TupleItem" and "dataset.shape" in unparse(dd[0].value):
                return dd[0].index
            if len(dd) == 1 and isinstance(dd[0], ast.AST):
                return scan_axis(dd[0], depth + 1)
            return None
        if isinstance(e, ast.Call) and (call_name(e) or "").split(".")[-1] in ("arange", "linspace") and e.args:
            return scan_axis(e.args[0] if (call_name(e) or "").endswith("arange") else (kwarg(e, "steps") or e.args[-1]), depth + 1)
        if isinstance(e, ast.Subscript) and "dataset.shape" in unparse(e.value) and isinstance(e.slice, ast.Constant):
            return e.slice.value
        if isinstance(e, ast.Call) and isinstance(e.func, ast.Attribute) and e.func.attr in ("to", "float", "double"):
            return scan_axis(e.func.value, depth + 1)
        return None
    axes = [scan_axis(a) for a in mg[0].args]
    if None in axes:
        raise AnalysisError(f"fit_origin_background: meshgrid arguments `{unparse(mg[0])[:70]}` are not coordinate vectors over dataset.shape[:2]")
    ix = kwarg(mg[0], "indexing")
    ij = ix is not None and is_const(ix, "ij")
    want_axes = [0, 1] if ij else [1, 0]
    check.decide(axes == want_axes, "C18-R5", "fit_origin_background: inferred scan positions are laid out (scan axis 0, scan axis 1) — the row-major order of the measured origins",
                 f"meshgrid axes {axes}, indexing={'ij' if ij else 'xy'}", omod.line(mg[0]),
                 fail_detail=f"`{unparse(mg[0])[:80]}` yields grids of shape (extent of scan axis {axes[0] if ij else axes[1]}, extent of scan axis {axes[1] if ij else axes[0]}): flattened, "
                             f"position k is not the position of measured origin k on non-square scans, so a plane is fitted through wrongly paired points")
    # plane fit: x/y components fitted from the matching slot, evaluated with their own coefficients
    txt = unparse(fitf)
    ok = "com_x_pts = torch.concatenate((probe_positions, self.origin_measured[:, 0, None]), 1)" in txt and \
        "com_y_pts = torch.concatenate((probe_positions, self.origin_measured[:, 1, None]), 1)" in txt and \
        "com_fitted = torch.stack([com_fitted_x, com_fitted_y], -1)" in txt and \
        "(probe_positions @ torch.tensor([-ax, -bx], device=self.device) - dx) / cx" in txt and \
        "(probe_positions @ torch.tensor([-ay, -by], device=self.device) - dy) / cy" in txt
    check.decide(ok, "C18-R5", "fit_origin_background[plane]: each slot is fitted from its own measurements and evaluated with its own plane",
                 "", omod.line(fitf), fail_detail="the plane fit mixes slots or coefficients")


def _batch_coverage(check, mod, fn, loop, label) -> None:
    it = loop.iter
    ok = False
    why = unparse(it)
    if isinstance(it, ast.Name):
        dd = [d for d in definitions(fn, it.id) if isinstance(d, ast.AST)]
        if len(dd) == 1 and isinstance(dd[0], ast.Call) and call_name(dd[0]) == "SimpleBatcher":
            c = dd[0]
            n = c.args[0] if c.args else kwarg(c, "num")
            vr = kwarg(c, "val_ratio")
            ok = n is not None and unparse(n) == "self.num_dps" and (vr is None or is_const(vr, 0.0) or is_const(vr, 0))
            why = unparse(c)
    elif isinstance(it, ast.Call) and call_name(it) == "range":
        if len(it.args) == 3 and is_const(it.args[0], 0) and unparse(it.args[1]) in ("self.num_dps", "num_dps", "len(tensor_3d)"):
            ok = True
        else:
            nm = it.args[-1] if it.args else None
            dd = [d for d in definitions(fn, nm.id) if isinstance(d, ast.AST)] if isinstance(nm, ast.Name) else []
            kdef = dd[0] if dd else nm
            ktxt = unparse(kdef) if kdef is not None else "?"
            if isinstance(kdef, ast.BinOp) and isinstance(kdef.op, ast.FloorDiv) and unparse(kdef.left) in ("self.num_dps", "num_dps"):
                why = f"{unparse(it)} with {ktxt}: floor division — the trailing partial batch is never computed"
            elif (isinstance(kdef, ast.BinOp) and isinstance(kdef.op, ast.FloorDiv) and "- 1" in unparse(kdef.left) and "num_dps" in unparse(kdef.left)) \
                    or (isinstance(kdef, ast.Call) and "ceil" in (call_name(kdef) or "") and "num_dps" in ktxt) \
                    or (isinstance(kdef, ast.Call) and call_name(kdef) == "int" and "ceil" in ktxt and "num_dps" in ktxt):
                ok = True
                why = f"{unparse(it)} with {ktxt} (ceil division)"
            else:
                raise AnalysisError(f"{label}: batching loop `{unparse(it)}` not recognised")
    else:
        raise AnalysisError(f"{label}: batching loop `{unparse(it)}` not recognised")
    check.decide(ok, "C18-R3", f"{label}: the batches cover every pattern exactly once", why, mod.line(loop),
                 fail_detail=f"{why} — some rows of the result keep uninitialised values for batch sizes that do not divide the number of patterns")


def _shift_rule(check, mod, fn) -> None:
    k = KAT(fn, seeds={"origin_fitted": Pair((ROW, COL)), "coordinate": Pair((ROW, COL))}).run()
    check.assume("fitted origins and the target coordinate are (row, col) pairs (established by C18-R1 for the measured origins)")
    for n, m in k.clashes:
        check.violated("C18-R4", f"shift_origin_to: axis clash `{unparse(n)[:60]}`", m + ": non-square detectors are sampled at the wrong "
                       "positions, the shift is no longer the circular roll", mod.line(n), definite=True)
    if not k.clashes:
        check.holds("C18-R4", "shift_origin_to: no axis clash between (row, col) pairs, components and extents", where=mod.line(fn))
    gs = [c for c in calls_in(fn) if (call_name(c) or "").endswith("grid_sample")]
    if len(gs) != 1:
        raise AnalysisError("shift_origin_to: grid_sample call not found")
    grid_arg = gs[0].args[1] if len(gs[0].args) > 1 else kwarg(gs[0], "grid")
    gv = k.ev(grid_arg)
    ok = isinstance(gv, Pair) and gv.order == (COL, ROW)
    check.decide(ok, "C18-R4", "shift_origin_to: grid_sample receives (x, y) = (col, row) ordered coordinates", str(getattr(gv, "order", gv)), mod.line(gs[0]),
                 fail_detail=f"the sampling grid is ordered {getattr(gv, 'order', '?')}; grid_sample expects x (column) first")
    ac = kwarg(gs[0], "align_corners")
    aligned = ac is not None and is_const(ac, True)
    # normalisation uses (N − 1) iff align_corners=True
    norms = []
    for n in ast.walk(fn):
        if isinstance(n, ast.BinOp) and isinstance(n.op, ast.Div) and isinstance(k.ev(n.left), (Comp, Pair)):
            norms.append(unparse(n.right))
    minus_one = bool(norms) and all("- 1" in x for x in norms)
    plain = bool(norms) and all("- 1" not in x for x in norms)
    check.decide((aligned and minus_one) or (not aligned and plain and False), "C18-R4",
                 "shift_origin_to: align_corners=True is paired with the (N − 1) normalisation", f"align_corners={unparse(ac) if ac is not None else None}, divisors {norms}",
                 mod.line(gs[0]),
                 fail_detail=f"align_corners={unparse(ac) if ac is not None else 'default'} with divisors {norms}: integer shifts no longer land on pixel centres")
    # periodic wrap: every normalised coordinate (the numerator of a `/ (N − 1)` division) has passed through a `% extent`, i.e. a Mod node
    # occurs in the numerator once single-definition locals are resolved; the wrap must act on un-normalised pixel coordinates
    def has_mod(e, depth=0, seen=()):
        for x in ast.walk(e):
            if isinstance(x, ast.BinOp) and isinstance(x.op, ast.Mod):
                return True
        if depth > 5:
            return False
        for x in ast.walk(e):
            if isinstance(x, ast.Name) and x.id not in seen:
                for d in definitions(fn, x.id):
                    if isinstance(d, ast.AST) and has_mod(d, depth + 1, seen + (x.id,)):
                        return True
        return False
    divs = [n for n in ast.walk(fn) if isinstance(n, ast.BinOp) and isinstance(n.op, ast.Div) and isinstance(k.ev(n.left), (Comp, Pair))]
    check.floor("shift_origin_to: coordinate normalisations", len(divs), 2)
    unwrapped = [unparse(n)[:60] for n in divs if not has_mod(n.left)]
    wraps = [n for n in ast.walk(fn) if isinstance(n, ast.BinOp) and isinstance(n.op, ast.Mod)]
    late = [unparse(w)[:60] for w in wraps if any(isinstance(x, ast.BinOp) and isinstance(x.op, ast.Div) for x in ast.walk(w.left))]
    check.decide(not unwrapped and not late and bool(wraps), "C18-R4", "shift_origin_to: coordinates are wrapped modulo the detector extents before normalisation",
                 f"{len(wraps)} wrap(s), {len(divs)} normalisation(s)", mod.line(fn),
                 fail_detail=f"normalisations without a periodic wrap in their numerator: {unwrapped}; wraps applied to already normalised values: {late} — "
                             f"samples beyond the border are zero-padded instead of wrapping: not a circular roll")
    loop = next((n for n in walk_no_nested_defs(fn) if isinstance(n, ast.For)), None)
    if loop is None:
        raise AnalysisError("shift_origin_to: batch loop not found")
    _batch_coverage(check, mod, fn, loop, "shift_origin_to")
    sh = [d for d in definitions(fn, "shift_yx") if isinstance(d, ast.AST)]
    ok = len(sh) == 1 and unparse(sh[0]) == f"origin_fitted[{unparse(loop.target)}] - coordinate"
    check.decide(ok, "C18-R3", "shift_origin_to: each pattern is shifted by its own fitted origin (batch-indexed)", "", mod.line(loop),
                 fail_detail="the shift is not origin_fitted[batch] − coordinate")


MANIFEST = {
    "text": "Decides with a kinded-axis interpretation, for every detector shape: in all four centre-of-mass implementations "
            "(origin model, vectorised and looped dataset arms, get_com_2d) slot 0 is weighted with the row-axis grid laid along "
            "array axis −2 and slot 1 with the column grid, grids are pure coordinates and the numerator weights are exactly the "
            "summand of the normalising total; the vectorised and looped arms agree; batching covers every pattern, reads and "
            "writes rows by the same batch index and reduces detector axes only; shift_origin_to keeps (row, col) pairs, "
            "components and extents consistent, wraps before normalising, hands (col, row) to grid_sample and pairs "
            "align_corners=True with (N−1); the constant fit is the mean over positions.",
    "note": "Not decided: plane-fit exactness (PCA numerics), curve_fit variants, interpolation accuracy for non-integer shifts. "
            "Assumes fitted origins are (row, col) pairs.",
    "technique": "kinded-axis abstract interpretation (axis/extent/pair kinds) + sibling-arm agreement (AST)",
}
MANIFEST["text"] += ' Also: numerator and normalising total read the same version of the weights (no rebinding in between); every normalised coordinate has passed a periodic wrap; inferred scan positions are laid out (scan axis 0, scan axis 1) like the measured origins.'
MANIFEST["text"] += ' Thresholding or indexing with the detector mask is a positively identified use kind and is reported as definite.'
MANIFEST["text"] += " R5 also: ptycho_utils.fit_origin's coordinate grids are kinded (KAT; np.indices is 'ij', np.meshgrid defaults to 'xy'): the row grid varies along axis 0 over shape[0]."
MANIFEST["text"] += ' R8 (coupled): the first moments are formed in a type that cannot wrap around (default-typed coordinate grids, or patterns always stored as floats).'
