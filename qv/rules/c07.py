"""C07 — torch Radon / FBP agree with scikit-image: port conformance against the installed
reference *source*, geometry algebra, batch separability (E5, E8)."""
from __future__ import annotations

import ast
import os
import sys
from typing import Optional

from ..core.repo import (AnalysisError, AnchorMissing, Repo, call_name, calls_in, definitions, dotted, func_params,
                         is_const, kwarg, names_in, unparse, walk_no_nested_defs, _set_parents)
from ..domains.algnf import NotArithmetic, Rat, from_ast
from ..domains.codec import flatten_if_chain

RD = "quantem.tomography.radon.radon"

EXPLANATION = (
    "port conformance by sibling comparison with the installed scikit-image source "
    "(skimage/transform/radon_transform.py, read as text, never imported): each filter arm and the "
    "base ramp are canonicalised under a numpy→torch equivalence table that records the semantic "
    "differences (linspace end point, symmetric vs periodic windows, integer division of an even "
    "size) and compared; padded size, scaling, circle mask, ray coordinate and detector-bin offset "
    "are compared as expressions; the batch axis is never reduced; grid_sample uses zero padding "
    "and align_corners=True with the (N−1) normalisation"
)


def _find_reference() -> str:
    cands = []
    for base in ("/venv/lib",):
        if os.path.isdir(base):
            for d in sorted(os.listdir(base)):
                cands.append(os.path.join(base, d, "site-packages", "skimage", "transform", "radon_transform.py"))
    for p in sys.path:
        cands.append(os.path.join(p, "skimage", "transform", "radon_transform.py"))
    for c in cands:
        if os.path.isfile(c):
            return c
    raise AnchorMissing("reference source skimage/transform/radon_transform.py not found")


# ------------------------------------------------------------------ canonical forms
def canon(e: ast.AST, env: dict) -> object:
    """Canonical nested tuple of an array expression, independent of numpy/torch spelling.
    env maps local names to already-canonicalised values."""
    if isinstance(e, ast.Constant):
        return ("const", float(e.value) if isinstance(e.value, (int, float)) and not isinstance(e.value, bool) else e.value)
    if isinstance(e, ast.Name):
        if e.id in env:
            return env[e.id]
        return ("name", e.id)
    if isinstance(e, ast.Attribute):
        d = dotted(e)
        if d in ("np.pi", "torch.pi", "math.pi"):
            return ("pi",)
        if d == "np.newaxis":
            return ("const", None)
        if e.attr in ("real", "imag") and not isinstance(e.value, ast.Name):
            return (e.attr, canon(e.value, env))  # x.real ≡ real(x)
        return ("attr", d)
    if isinstance(e, ast.UnaryOp) and isinstance(e.op, ast.USub):
        inner = canon(e.operand, env)
        if inner[0] == "const" and isinstance(inner[1], float):
            return ("const", -inner[1])
        return ("neg", inner)
    if isinstance(e, ast.BinOp):
        op = type(e.op).__name__
        l, r = canon(e.left, env), canon(e.right, env)
        if op == "FloorDiv" and l == ("name", "size") and r == ("const", 2.0):
            return ("half_size",)  # size is even (guarded): size // 2 == size / 2
        if op == "Div" and l == ("name", "size") and r == ("const", 2.0):
            return ("half_size",)
        return (op, l, r)
    if isinstance(e, ast.Subscript):
        return ("index", canon(e.value, env), _canon_slice(e.slice, env))
    if isinstance(e, (ast.Tuple, ast.List)):
        return ("seq",) + tuple(canon(x, env) for x in e.elts)
    if isinstance(e, ast.Call):
        cn = call_name(e) or ""
        short = cn.split(".")[-1]
        args = [a for a in e.args]
        kws = {k.arg: k.value for k in e.keywords if k.arg not in ("device", "dtype")}
        if isinstance(e.func, ast.Attribute) and short == "float" and not args:
            return canon(e.func.value, env)
        if short in ("linspace",):
            a, b = canon(args[0], env), canon(args[1], env)
            n = args[2] if len(args) > 2 else kws.get("steps") or kws.get("num")
            endpoint = True
            ep = kws.get("endpoint")
            if ep is not None:
                endpoint = bool(ast.literal_eval(ep))
            return ("linspace", a, b, canon(n, env), endpoint)
        if short in ("arange",):
            return ("arange",) + tuple(canon(a, env) for a in args)
        if short in ("concatenate", "cat"):
            seq = canon(args[0], env)
            return ("concat",) + tuple(seq[1:])
        if short in ("zeros",):
            return ("zeros", canon(args[0], env))
        if short in ("fft", "ifft", "fftshift", "ifftshift", "real", "sin", "cos", "fftfreq"):
            return (short,) + tuple(canon(a, env) for a in args)
        if short in ("hamming", "hanning"):
            return ("window", "hamming" if short == "hamming" else "hann", canon(args[0], env), "symmetric")
        if short in ("hamming_window", "hann_window"):
            per = kws.get("periodic")
            periodic = True if per is None else bool(ast.literal_eval(per))
            return ("window", "hamming" if short.startswith("hamming") else "hann", canon(args[0], env), "periodic" if periodic else "symmetric")
        return ("call", cn) + tuple(canon(a, env) for a in args)
    return ("?", unparse(e))


def _canon_slice(s: ast.AST, env) -> object:
    if isinstance(s, ast.Slice):
        return ("slice", canon(s.lower, env) if s.lower else None, canon(s.upper, env) if s.upper else None, canon(s.step, env) if s.step else None)
    if isinstance(s, ast.Tuple):
        return ("seq",) + tuple(_canon_slice(x, env) for x in s.elts)
    return canon(s, env)


def _simplify(c):
    """linspace(a, b, n+1)[:-1] ≡ linspace(a, b, n, endpoint=False);  arange(n)·(b/n) ≡ same with a = 0."""
    if isinstance(c, tuple):
        c = tuple(_simplify(x) for x in c)
        if c and c[0] == "index" and c[1][0] == "linspace" and c[2] == ("slice", None, ("const", -1.0), None):
            _, a, b, n, ep = c[1]
            if ep and n[0] == "Add" and n[2] == ("const", 1.0):
                return ("linspace", a, b, n[1], False)
        if c and c[0] == "Mult":
            for x, y in ((c[1], c[2]), (c[2], c[1])):
                if x[0] == "arange" and len(x) == 2 and y[0] == "Div" and y[2] == x[1]:
                    return ("linspace", ("const", 0.0), y[1], x[1], False)
    return c


def _arm_effects(body: list[ast.stmt], filt: str) -> list[tuple]:
    """Sequence of canonical effects on the filter array within one arm."""
    env: dict = {}
    eff = []
    for st in body:
        if isinstance(st, ast.Pass) or (isinstance(st, ast.Expr) and isinstance(st.value, ast.Constant)):
            continue
        if isinstance(st, ast.Assign) and isinstance(st.targets[0], ast.Name):
            env[st.targets[0].id] = _simplify(canon(st.value, env))
            continue
        if isinstance(st, ast.AugAssign) and isinstance(st.op, ast.Mult):
            tgt = canon(st.target, {})
            eff.append(("mul", tgt, _simplify(canon(st.value, env))))
            continue
        if isinstance(st, ast.Assign) and isinstance(st.targets[0], ast.Subscript):
            eff.append(("set", canon(st.targets[0], {}), _simplify(canon(st.value, env))))
            continue
        raise AnalysisError(f"filter arm statement `{unparse(st)[:60]}` not understood")
    return eff


def _result_name(fn: ast.FunctionDef) -> str:
    """The local a filter builder accumulates into and returns (by role: the name in the last return)."""
    rets = [n for n in ast.walk(fn) if isinstance(n, ast.Return) and n.value is not None]
    if not rets:
        raise AnalysisError(f"{fn.name}: no return")
    # the LAST return in source order (ast.walk is breadth-first), and a local of the function — an early `return torch.ones(…)` for a special case names none
    last = max(rets, key=lambda r_: (r_.lineno, r_.col_offset))
    assigned = {t.id for n in ast.walk(fn) if isinstance(n, (ast.Assign, ast.AugAssign)) for t in ast.walk(n.targets[0] if isinstance(n, ast.Assign) else n.target) if isinstance(t, ast.Name)}
    nm = [x.id for x in ast.walk(last.value) if isinstance(x, ast.Name) and x.id in assigned]
    if not nm:
        raise AnalysisError(f"{fn.name}: the last return value names no local of the function")
    return nm[0]


def _subst(c, a: str, b: str):
    if isinstance(c, tuple):
        if c == ("name", a):
            return ("name", b)
        return tuple(_subst(x, a, b) for x in c)
    if isinstance(c, list):
        return [_subst(x, a, b) for x in c]
    return c


def _arms(fn: ast.FunctionDef, var: str):
    chain = next((s for s in fn.body if isinstance(s, ast.If) and var in unparse(s.test) and "ramp" in unparse(s.test)), None)
    if chain is None:
        raise AnalysisError(f"{fn.name}: filter dispatch not found")
    arms, els = flatten_if_chain(chain)
    out = {}
    for t, body in arms:
        if isinstance(t, ast.Compare) and isinstance(t.comparators[0], ast.Constant):
            key = t.comparators[0].value
        else:
            raise AnalysisError(f"{fn.name}: arm test `{unparse(t)}` not understood")
        out[key] = body
    return out, els


def run(check, repo: Repo) -> None:
    mod = repo.module(RD)
    _, gff = repo.func(f"{RD}:get_fourier_filter_torch")
    _, irad = repo.func(f"{RD}:iradon_torch")
    _, rad = repo.func(f"{RD}:radon_torch")
    ref_path = _find_reference()
    with open(ref_path, "r", encoding="utf-8") as fh:
        ref_tree = ast.parse(fh.read())
    _set_parents(ref_tree)
    ref_fns = {n.name: n for n in ast.walk(ref_tree) if isinstance(n, ast.FunctionDef)}
    for need in ("_get_fourier_filter", "iradon", "radon"):
        if need not in ref_fns:
            raise AnchorMissing(f"reference function {need} not found in {ref_path}")
    rff, rir = ref_fns["_get_fourier_filter"], ref_fns["iradon"]
    check.analysed(f"{RD}:get_fourier_filter_torch", f"{RD}:iradon_torch", f"{RD}:radon_torch",
                   f"skimage.transform.radon_transform:_get_fourier_filter", "skimage.transform.radon_transform:iradon")
    check.extra["reference_source"] = ref_path
    check.assume("the installed scikit-image source is the reference the module claims to port; it is parsed, never imported")

    # ---- R8 the projection angles reach the rotation as given ---------------------------------------------------------------------------------
    # The reference uses every angle as is (radon at 180° is the MIRROR image of the projection at 0°, not the same row).  Forward taint from the
    # `theta` parameter through local definitions and one level of module helpers: no step may reduce, fold, clamp or round the angle.
    REDUCERS = {"remainder", "fmod", "mod", "clamp", "clip", "clamp_", "abs", "absolute", "round", "floor", "ceil", "unique", "sort", "sorted", "flip"}

    def _angle_names(e):
        """names the expression reads OUTSIDE trigonometric calls (cos θ is a direction cosine, no longer an angle)"""
        out, stack = set(), [e]
        while stack:
            x = stack.pop()
            if isinstance(x, ast.Call) and (call_name(x) or "").split(".")[-1] in ("cos", "sin", "tan", "exp"):
                continue
            if isinstance(x, ast.Name):
                out.add(x.id)
            stack += list(ast.iter_child_nodes(x))
        return out

    def _angle_chain(fn, params, depth=0):
        tainted, bad, changed = set(params), [], True
        stmts = [x for x in ast.walk(fn) if isinstance(x, (ast.Assign, ast.AugAssign, ast.AnnAssign, ast.For, ast.Return))]
        while changed:
            changed = False
            for st_ in stmts:
                val = st_.iter if isinstance(st_, ast.For) else getattr(st_, "value", None)
                if val is None or not (_angle_names(val) & tainted):
                    continue
                tg = [st_.target] if isinstance(st_, (ast.AugAssign, ast.AnnAssign, ast.For)) else (st_.targets if isinstance(st_, ast.Assign) else [])
                for t_ in tg:
                    for nm in ([t_.id] if isinstance(t_, ast.Name) else [e.id for e in getattr(t_, "elts", []) if isinstance(e, ast.Name)]):
                        # a loop index (enumerate's first slot) is not an angle
                        if isinstance(st_, ast.For) and isinstance(val, ast.Call) and call_name(val) == "enumerate" and isinstance(t_, ast.Tuple) and t_.elts and getattr(t_.elts[0], "id", None) == nm:
                            continue
                        if nm not in tainted:
                            tainted.add(nm)
                            changed = True
        for st_ in stmts:
            val = st_.iter if isinstance(st_, ast.For) else getattr(st_, "value", None)
            if val is None:
                continue
            for x in ast.walk(val):
                if isinstance(x, ast.BinOp) and isinstance(x.op, ast.Mod) and names_in(x.left) & tainted and not isinstance(x.left, ast.Constant):
                    bad.append(x)
                elif isinstance(x, ast.Call):
                    last = (call_name(x) or "").split(".")[-1]
                    args_t = any(names_in(a) & tainted for a in list(x.args) + [k.value for k in x.keywords]) or (
                        isinstance(x.func, ast.Attribute) and names_in(x.func.value) & tainted)
                    if last in REDUCERS and args_t:
                        bad.append(x)
                    elif depth == 0 and isinstance(x.func, ast.Name) and x.func.id in module_defs_ and x.func.id not in ("radon_torch", "iradon_torch", "get_fourier_filter_torch"):
                        callee = next(n for n in mod.tree.body if isinstance(n, ast.FunctionDef) and n.name == x.func.id)
                        ps = func_params(callee)
                        tp = {ps[i] for i, a in enumerate(x.args) if i < len(ps) and names_in(a) & tainted} | {k.arg for k in x.keywords if k.arg and names_in(k.value) & tainted}
                        if tp:
                            bad += _angle_chain(callee, tp, depth + 1)[0]
        return bad, tainted

    module_defs_ = {n.name for n in mod.tree.body if isinstance(n, ast.FunctionDef)}
    for label_, fn_ in (("radon_torch", rad), ("iradon_torch", irad)):
        if "theta" not in func_params(fn_):
            raise AnalysisError(f"{label_}: parameter `theta` not found")
        bad_, tainted_ = _angle_chain(fn_, {"theta"})
        trig = [c for c in calls_in(fn_) if (call_name(c) or "").split(".")[-1] in ("cos", "sin", "deg2rad") and any(names_in(a) & tainted_ for a in c.args)]
        if not trig:
            raise AnalysisError(f"{label_}: the angles do not reach a trigonometric call — chain not recognised")
        check.decide(not bad_, "C07-R8", f"{label_}: the projection angles reach the rotation as given (no modular reduction, clamping or rounding on the way)",
                     f"{len(tainted_)} angle-carrying locals, {len(trig)} trigonometric uses", mod.line(bad_[0] if bad_ else fn_), definite=True,
                     fail_detail=f"`{unparse(bad_[0])[:70] if bad_ else ''}` changes the angle values before they are used: the reference projects at exactly the requested angles — "
                                 f"e.g. 180° reduced to 0° replaces the mirrored projection by the unmirrored one")

    # ---- R9 the transform length of the filtering step is the padded size (coupled with the filter's layout) --------------------------------------
    # Explicit padding to `padded_size` (F.pad) fixes the length by itself.  When the length is instead read off the filter (`n=f_filter.shape[k]`), axis k must be the
    # axis of the filter that holds its `size` samples: decided from the producer's return layout (unsqueeze(0) → [1, size]; view/reshape(… size …) → position of size).
    ffts_ = [c for c in calls_in(irad) if (call_name(c) or "").endswith("fft.fft") and kwarg(c, "n") is not None]
    for c in ffts_:
        nexp = kwarg(c, "n")
        key9 = "iradon_torch: the projections are transformed at the padded filter length"
        if isinstance(nexp, ast.Subscript) and isinstance(nexp.value, ast.Attribute) and nexp.value.attr == "shape" and isinstance(nexp.slice, (ast.Constant, ast.UnaryOp)):
            fname = dotted(nexp.value.value)
            fdefs = [d_ for d_ in definitions(irad, fname) if isinstance(d_, ast.AST)] if fname else []
            from_filter = len(fdefs) == 1 and isinstance(fdefs[0], ast.Call) and (call_name(fdefs[0]) or "").endswith("get_fourier_filter_torch")
            if not from_filter:
                raise AnalysisError(f"iradon_torch: `n={unparse(nexp)}` is not read off the Fourier filter — not decided")
            k = ast.literal_eval(nexp.slice)
            rets_ = [r.value for r in ast.walk(gff) if isinstance(r, ast.Return) and r.value is not None]
            pos, rank = None, None
            if len(rets_) == 1 and isinstance(rets_[0], ast.Call) and isinstance(rets_[0].func, ast.Attribute):
                r_ = rets_[0]
                if r_.func.attr == "unsqueeze" and r_.args and is_const(r_.args[0], 0):
                    pos, rank = 1, 2
                elif r_.func.attr in ("view", "reshape"):
                    dims = [unparse(a_) for a_ in r_.args]
                    sz = [i for i, d_ in enumerate(dims) if d_ in ("size", "-1")]
                    if len(sz) == 1:
                        pos, rank = sz[0], len(dims)
            if pos is None:
                raise AnalysisError("get_fourier_filter_torch: layout of the returned filter not recognised")
            kk = k if k >= 0 else rank + k
            check.decide(kk == pos, "C07-R9", key9, f"n = {unparse(nexp)}; the filter is returned with its samples on axis {pos} of {rank}", mod.line(c), definite=True,
                         fail_detail=f"`n={unparse(nexp)}` reads axis {kk} of the filter, but get_fourier_filter_torch returns its {rank}-d result with the samples on axis {pos}: "
                                     f"the transform length is {'1' if kk != pos else '?'} instead of the padded size — every projection is truncated and the product still broadcasts silently")
        elif unparse(nexp) in ("padded_size",):
            check.holds("C07-R9", key9, "n=padded_size", mod.line(c))
        else:
            raise AnalysisError(f"iradon_torch: transform length `n={unparse(nexp)[:40]}` not recognised")
    if not ffts_:
        check.holds("C07-R9", "iradon_torch: the projections are transformed at the padded filter length", "explicit zero padding to padded_size (no n= argument)", mod.line(irad), nontrivial=False)

    # the port is compared with the reference function by function: a call to a module-level helper that is not one of the recorded functions (and that the inliner
    # could not dissolve — a decorated / cached helper, for instance) hides part of the computation; then nothing is claimed
    from ..core.alpha import pinned_table
    module_defs = {n.name for n in mod.tree.body if isinstance(n, ast.FunctionDef)}
    recorded = {k.split(":")[-1] for k in pinned_table() if k.startswith(RD + ":")}
    # a memoised helper hands every caller the SAME tensor: modifying it in place (`*=`, `.mul_()`, subscript stores) corrupts the cache for the next request
    cached = {n.name for n in mod.tree.body if isinstance(n, ast.FunctionDef) and any("cache" in unparse(d) for d in n.decorator_list)}
    for f_ in [n for n in mod.tree.body if isinstance(n, ast.FunctionDef)]:
        for st_ in ast.walk(f_):
            if isinstance(st_, ast.Assign) and isinstance(st_.value, ast.Call) and isinstance(st_.value.func, ast.Name) and st_.value.func.id in cached \
                    and len(st_.targets) == 1 and isinstance(st_.targets[0], ast.Name):
                nm_ = st_.targets[0].id
                muts = [x for x in ast.walk(f_) if (isinstance(x, ast.AugAssign) and dotted(x.target) == nm_)
                        or (isinstance(x, ast.Call) and isinstance(x.func, ast.Attribute) and dotted(x.func.value) == nm_ and x.func.attr.endswith("_") and not x.func.attr.startswith("_"))
                        or (isinstance(x, ast.Assign) and any(isinstance(t_, ast.Subscript) and dotted(t_.value) == nm_ for t_ in x.targets))]
                rebound = [x for x in ast.walk(f_) if isinstance(x, ast.Assign) and x is not st_ and any(isinstance(t_, ast.Name) and t_.id == nm_ for t_ in x.targets)
                           and x.lineno < min((m_.lineno for m_ in muts), default=10 ** 9)]
                if muts and not rebound:
                    check.violated("C07-R6", f"{f_.name}: the value returned by the memoised `{st_.value.func.id}` is not modified in place",
                                   f"`{unparse(muts[0])[:60]}` writes into the tensor that `{st_.value.func.id}` (decorated with a cache) returns to every caller: the next request "
                                   f"for the same arguments receives the already modified filter (a later 'ramp' request returns a windowed filter; a repeated window is applied twice)",
                                   mod.line(muts[0]), definite=True)
    for f_ in (gff, irad, rad):
        for c_ in calls_in(f_):
            if isinstance(c_.func, ast.Name) and c_.func.id in module_defs and c_.func.id not in recorded:
                raise AnalysisError(f"{f_.name}: part of the computation lives in `{c_.func.id}`, which is not a recorded function and was not inlined — the comparison with the reference is not made")
    # ---- R1 filter table ---------------------------------------------------------------------------------
    t_res, r_res = _result_name(gff), _result_name(rff)
    t_arms, t_else = _arms(gff, "filter_name")
    r_arms, _ = _arms(rff, "filter_name")
    check.decide(set(t_arms) == set(r_arms), "C07-R1", "filter names accepted = the reference's filter_types", f"{sorted(map(str, t_arms))}", mod.line(gff),
                 fail_detail=f"torch accepts {sorted(map(str, t_arms))}, the reference {sorted(map(str, r_arms))}")
    check.floor("filter arms", len(t_arms), 6)
    for name in sorted(set(t_arms) & set(r_arms), key=str):
        te = _arm_effects(t_arms[name], t_res)
        re_ = _arm_effects(r_arms[name], r_res)
        te_n = _subst(_normalise_effects(te), t_res, "$filter")
        re_n = _subst(_normalise_effects(re_), r_res, "$filter")
        ok = te_n == re_n
        check.decide(ok, "C07-R1", f"get_fourier_filter_torch[{name}] conforms to the reference arm", "", mod.line(t_arms[name][0]), definite=True,
                     fail_detail=f"filter '{name}': torch arm ≙ {te_n}\n        reference ≙ {re_n}\n        (numpy→torch table: linspace(…, endpoint=False) ≠ "
                                 f"torch.linspace(…); np.hamming/np.hanning = *_window(periodic=False))")
    # base ramp
    def base(fn, res):
        env = {}
        eff = []
        for st in fn.body:
            if isinstance(st, ast.If):
                if "ramp" in unparse(st.test):
                    break
                continue
            if isinstance(st, ast.Expr):
                continue
            if isinstance(st, ast.Assign) and isinstance(st.targets[0], ast.Name):
                env[st.targets[0].id] = _simplify(canon(st.value, env))
                if st.targets[0].id == res:
                    eff.append(("filter", env[res]))
            elif isinstance(st, ast.Assign) and isinstance(st.targets[0], ast.Subscript):
                eff.append(("set", canon(st.targets[0], {}), _simplify(canon(st.value, env))))
        eff = _subst(eff, res, "$filter")
        # scratch arrays written through subscripts: named by order of first store, not by spelling
        stores = []
        for st in fn.body:
            if isinstance(st, ast.Assign) and isinstance(st.targets[0], ast.Subscript) and isinstance(st.targets[0].value, ast.Name) \
                    and st.targets[0].value.id not in stores and st.targets[0].value.id != res:
                stores.append(st.targets[0].value.id)
        for i, nm in enumerate(stores):
            eff = _subst(eff, nm, f"$scratch{i}")
        return eff
    tb, rb = base(gff, t_res), base(rff, r_res)
    check.decide(_strip_casts(tb) == _strip_casts(rb), "C07-R1", "get_fourier_filter_torch: the base ramp (Kak–Slaney eq. 61) is built as in the reference", "", mod.line(gff), definite=True,
                 fail_detail=f"torch ≙ {_strip_casts(tb)}\n        reference ≙ {_strip_casts(rb)}")
    ev = [n for n in gff.body if isinstance(n, ast.If) and "size % 2" in unparse(n.test) and any(isinstance(x, ast.Raise) for x in n.body)]
    check.decide(bool(ev), "C07-R1", "get_fourier_filter_torch rejects odd sizes (size/2 = size//2 is used by the comparison)", "", mod.line(gff),
                 fail_detail="no guard for odd filter sizes")

    # ---- R2 geometry expressions ----------------------------------------------------------------------------
    ps = [d for d in definitions(irad, "padded_size") if isinstance(d, ast.AST)]
    rp = [d for d in definitions(rir, "projection_size_padded") if isinstance(d, ast.AST)]
    def canon_pad(e, nvar):
        t = unparse(e).replace("torch.", "np.").replace(f"np.tensor(2 * {nvar}, dtype=np.float32)", f"2 * {nvar}").replace(nvar, "N")
        return t
    ok = len(ps) == 1 and len(rp) == 1 and canon_pad(ps[0], "N") == canon_pad(rp[0], "img_shape")
    check.decide(ok, "C07-R2", "iradon_torch: padded projection size = max(64, 2^ceil(log2(2N))) as in the reference", canon_pad(ps[0], "N") if ps else "", mod.line(irad),
                 fail_detail=f"torch `{canon_pad(ps[0], 'N') if ps else '?'}` vs reference `{canon_pad(rp[0], 'img_shape') if rp else '?'}`")
    sc = [n for n in ast.walk(irad) if isinstance(n, ast.AugAssign) and dotted(n.target) == "recon" and isinstance(n.op, ast.Mult)]
    ok = False
    if len(sc) == 1:
        try:
            v = from_ast(sc[0].value, {"torch.pi": Rat.sym("pi")})
            ok = v.equals(Rat.sym("pi") / (Rat.const(2) * Rat.sym("A")))
        except NotArithmetic:
            ok = False
    check.decide(ok, "C07-R2", "iradon_torch: reconstruction scaled by π / (2 · number of angles)", unparse(sc[0].value) if sc else "", mod.line(sc[0] if sc else irad),
                 fail_detail="the back-projection is not scaled by π/(2A)")
    # ray coordinate and detector-bin offset
    t_def = [d for d in definitions(irad, "t") if isinstance(d, ast.AST)]
    ok = False
    if len(t_def) == 1:
        inner = t_def[0].func.value if isinstance(t_def[0], ast.Call) and isinstance(t_def[0].func, ast.Attribute) and t_def[0].func.attr == "reshape" else t_def[0]
        try:
            v = from_ast(inner, atom=lambda e: ("C" if unparse(e) == "torch.cos(angle)" else "S" if unparse(e) == "torch.sin(angle)" else None))
            ok = v.equals(Rat.sym("x") * Rat.sym("C") - Rat.sym("y") * Rat.sym("S"))
        except NotArithmetic:
            ok = False
    mg = [d for d in definitions(irad, "y") if d.__class__.__name__ == "TupleItem"]
    ok_grid = bool(mg) and mg[0].index == 0 and "indexing='ij'" in unparse(mg[0].value) and unparse(mg[0].value).count("torch.arange(output_size, device=device) - radius") == 2
    check.decide(ok and ok_grid, "C07-R2", "iradon_torch: ray coordinate t = col·cos θ − row·sin θ on the grid centred at output_size//2 (reference: ypr·cos − xpr·sin)",
                 "", mod.line(irad), fail_detail="t is not x·cos(θ) − y·sin(θ) with (y, x) = ij-meshgrid(arange(output_size) − radius)")
    ti = [d for d in definitions(irad, "t_idx") if isinstance(d, ast.AST)]
    ok = len(ti) == 1 and unparse(ti[0]) in ("t + N // 2", "t + (N // 2)")
    nd = [d for d in definitions(irad, "N") if d.__class__.__name__ == "TupleItem"]
    ok = ok and bool(nd) and unparse(nd[0].value) == "sinograms.shape" and nd[0].index == 2
    check.decide(ok, "C07-R2", "iradon_torch: detector bin = t + N//2 with N the sinogram width (reference: x = arange(N) − N//2)",
                 unparse(ti[0]) if ti else "", mod.line(ti[0] if ti else irad),
                 fail_detail=f"t_idx = `{unparse(ti[0]) if ti else '?'}`: the ray is read from a bin shifted by N//2 − (that offset) whenever output_size ≠ N or circle=False")
    rdef = [unparse(d) for d in definitions(irad, "radius") if isinstance(d, ast.AST)]
    check.decide(rdef == ["output_size // 2"], "C07-R2", "iradon_torch: radius = output_size // 2", str(rdef), mod.line(irad), fail_detail=str(rdef))
    mk = [d for d in definitions(irad, "mask") if isinstance(d, ast.AST)]
    ok = len(mk) == 1 and isinstance(mk[0], ast.Compare) and isinstance(mk[0].ops[0], ast.Gt) and unparse(mk[0].comparators[0]) == "radius ** 2" \
        and "x.view(output_size, output_size) ** 2 + y.view(output_size, output_size) ** 2" == unparse(mk[0].left)
    check.decide(ok, "C07-R2", "iradon_torch: circle mask zeroes x² + y² > radius² (strict, as in the reference)", "", mod.line(irad),
                 fail_detail=f"mask = `{unparse(mk[0]) if mk else '?'}`")
    os_ = [d for d in definitions(irad, "output_size") if isinstance(d, ast.AST)]
    ok = any("N if circle else int(torch.floor(torch.sqrt(torch.tensor(N ** 2 / 2.0))))" == unparse(d) for d in os_)
    check.decide(ok, "C07-R2", "iradon_torch: default output size = N (circle) or ⌊√(N²/2)⌋", "", mod.line(irad), fail_detail="default output_size deviates")
    th = [d for d in definitions(irad, "theta") if isinstance(d, ast.AST)]
    ok = False
    if th:
        e = th[0].orelse if isinstance(th[0], ast.IfExp) else th[0]
        c = _simplify(canon(e, {}))
        ok = c == ("linspace", ("const", 0.0), ("const", 180.0), ("name", "A"), False)
    check.decide(ok, "C07-R2", "iradon_torch: default angles = linspace(0, 180, A, endpoint=False) as in the reference", "", mod.line(irad),
                 fail_detail="the default theta includes the 180° end point (torch.linspace has no endpoint=False)")
    # linear interpolation weights
    pj = [d for d in definitions(irad, "proj") if isinstance(d, ast.AST)]
    ok = False
    if len(pj) == 1:
        try:
            core = (Rat.const(1) - Rat.sym("w")) * Rat.sym("val0") + Rat.sym("w") * Rat.sym("val1")
            v = from_ast(pj[0])
            ok = v.equals(core) or any(v.equals(core * Rat.sym(nm)) for nm in ("valid", "mask", "inside"))
        except NotArithmetic:
            ok = False
    wd = [unparse(d) for d in definitions(irad, "w") if isinstance(d, ast.AST)]
    check.decide(ok and wd == ["t_idx - t0.float()"], "C07-R2", "iradon_torch: linear interpolation (1−w)·v0 + w·v1 with w = t_idx − ⌊t_idx⌋", "", mod.line(irad),
                 fail_detail="interpolation weights deviate")

    # ---- R5 sinogram embedding and zero fill (reference: _sinogram_circle_to_square, np.interp(left=0, right=0)) ------
    ref_embeds = any(isinstance(n, ast.If) and unparse(n.test) == "circle" and any(
        isinstance(c, ast.Call) and call_name(c) == "_sinogram_circle_to_square" for s in n.body for c in ast.walk(s)) for n in ast.walk(rir))
    if not ref_embeds or "_sinogram_circle_to_square" not in ref_fns:
        raise AnalysisError("reference iradon no longer embeds the sinogram under `if circle` — update the conformance table")
    rh = ref_fns["_sinogram_circle_to_square"]
    rd = {k: [unparse(x) for x in definitions(rh, k) if isinstance(x, ast.AST)] for k in ("diagonal", "pad", "old_center", "new_center", "pad_before")}
    ref_ok = rd["diagonal"] == ["int(np.ceil(np.sqrt(2) * sinogram.shape[0]))"] and rd["pad"] == ["diagonal - sinogram.shape[0]"] \
        and rd["old_center"] == ["sinogram.shape[0] // 2"] and rd["new_center"] == ["diagonal // 2"] and rd["pad_before"] == ["new_center - old_center"]
    if not ref_ok:
        raise AnalysisError(f"reference _sinogram_circle_to_square changed: {rd}")
    emb = next((n for n in walk_no_nested_defs(irad) if isinstance(n, ast.If) and unparse(n.test) == "circle"
                and any(isinstance(c, ast.Call) and (call_name(c) or "").endswith("pad") for s in n.body for c in ast.walk(s))), None)
    if emb is None:
        check.violated("C07-R5", "iradon_torch[circle]: the sinogram is embedded in the diagonal length before filtering (reference: _sinogram_circle_to_square)",
                       "under circle=True the reference pads the sinogram to ceil(√2·N) bins around the rotation centre and derives the FFT/filter length "
                       "from that; the port filters the raw width, so the filter length — and the reconstruction — differ for N in 23..32, 46..64, …",
                       mod.line(irad))
    else:
        pad_call = next(c for s in emb.body for c in ast.walk(s) if isinstance(c, ast.Call) and (call_name(c) or "").endswith("pad"))
        widths = pad_call.args[1] if len(pad_call.args) > 1 else None
        ok = isinstance(widths, ast.Tuple) and len(widths.elts) == 2 and unparse(pad_call.args[0]) == "sinograms"
        why = unparse(pad_call)
        if ok:
            region = ast.Module(body=emb.body, type_ignores=[])
            loc = {}
            for st in emb.body:
                if isinstance(st, ast.Assign) and isinstance(st.targets[0], ast.Name) and st.targets[0].id != "N":
                    loc[st.targets[0].id] = st.value
            def at(e):
                if isinstance(e, ast.BinOp) and isinstance(e.op, ast.FloorDiv):
                    return f"⌊{unparse(e.left)}/{unparse(e.right)}⌋"
                if isinstance(e, ast.Call):
                    return f"⟨{unparse(e)}⟩"
                return None
            try:
                env = {}
                for k, v in loc.items():
                    env[k] = from_ast(v, env, at)
                a, b = from_ast(widths.elts[0], env, at), from_ast(widths.elts[1], env, at)
                diag = env.get("diagonal")
                ok = diag is not None and a.equals(Rat.sym("⌊diagonal/2⌋").subs("diagonal", diag) if False else from_ast(ast.parse("diagonal // 2 - N // 2", mode="eval").body, env, at)) \
                    and (a + b).equals(diag - Rat.sym("N"))
                dtxt = unparse(loc.get("diagonal", ast.Constant(None))).replace("math.", "np.")
                ok = ok and dtxt == "int(np.ceil(np.sqrt(2) * N))"
                why = f"widths ({unparse(widths.elts[0])}, {unparse(widths.elts[1])}), diagonal = {dtxt}"
            except NotArithmetic as exc:
                ok, why = False, f"not arithmetic: {exc}"
        rebind = any(isinstance(st, ast.Assign) and dotted(st.targets[0]) == "N" and unparse(st.value) == "diagonal" for st in emb.body)
        before = emb.lineno < (ps[0].lineno if ps else 0)
        check.decide(ok and rebind and before, "C07-R5",
                     "iradon_torch[circle]: the sinogram is embedded in the diagonal length before filtering (reference: _sinogram_circle_to_square)",
                     why, mod.line(emb),
                     fail_detail=f"{why}; rebind N={rebind}, before FFT size={before}: pad_before must be diagonal//2 − N//2, the total diagonal − N with "
                                 f"diagonal = ceil(√2·N), and the detector width used afterwards must be the diagonal")
    pj_f = _mul_factors(pj[0]) if len(pj) == 1 else []
    masks = []
    for f_ in pj_f:
        r_ = f_
        if isinstance(f_, ast.Name):
            dd = [d for d in definitions(irad, f_.id) if isinstance(d, ast.AST)]
            r_ = dd[0] if len(dd) == 1 else f_
        if any(isinstance(x, ast.Compare) for x in ast.walk(r_)):
            masks.append(unparse(r_))
    ok = any("t_idx >= 0" in m_ and "t_idx <= N - 1" in m_ for m_ in masks) or any(
        isinstance(c, ast.Call) and (call_name(c) or "").endswith("where") and "t_idx" in unparse(c) for c in calls_in(irad))
    check.decide(ok, "C07-R5", "iradon_torch: rays outside the detector [0, N−1] contribute zero (reference: np.interp(left=0, right=0))", str(masks), mod.line(irad),
                 fail_detail="the interpolated value is not masked to the detector range: with circle=False (or an enlarged output) rays leaving the "
                             "detector are linearly extrapolated from the last two bins instead of contributing 0")

    # ---- R3 batch separability / linearity ---------------------------------------------------------------------------
    for label, fn in (("radon_torch", rad), ("iradon_torch", irad)):
        bad = []
        for c in calls_in(fn):
            cn = (call_name(c) or "")
            short = cn.split(".")[-1] if cn else (c.func.attr if isinstance(c.func, ast.Attribute) else "")
            if short in ("sum", "mean", "max", "min", "amax", "amin", "median", "std", "norm", "prod", "argmax", "softmax", "sort"):
                d = kwarg(c, "dim") or kwarg(c, "axis") or (c.args[0] if (c.args and not cn.startswith("torch.")) else (c.args[1] if len(c.args) > 1 else None))
                if short in ("max", "min") and not cn.startswith("torch.") and not isinstance(c.func, ast.Attribute):
                    continue  # python builtins on scalars
                dims = unparse(d) if d is not None else "ALL"
                if dims in ("ALL", "0", "(0,)") and not (short in ("min", "max") and cn in ("min", "max")):
                    bad.append(f"{unparse(c)[:50]} over {dims}")
        check.decide(not bad, "C07-R3", f"{label}: no reduction touches the batch axis (a batched call equals the per-image calls)", "", mod.line(fn),
                     fail_detail=f"reductions over the batch axis / all axes: {bad}")
        nonlin = [unparse(c)[:40] for c in calls_in(fn) if ((call_name(c) or "").split(".")[-1] in ("abs", "sqrt", "exp", "log", "clamp_min", "relu", "square", "pow", "sign"))
                  and any(nm in names_in(c) for nm in ("images", "imgs", "sampled", "sinograms", "filtered", "spectrum", "recon", "proj", "val0", "val1"))]
        check.decide(not nonlin, "C07-R3", f"{label}: no non-linear operation acts on the data path", "", mod.line(fn),
                     fail_detail=f"non-linear operations on image/sinogram data: {nonlin}")
    pr = [unparse(d) for d in definitions(rad, "projection") if isinstance(d, ast.AST)]
    check.decide(pr == ["sampled.squeeze(1).sum(dim=1)"], "C07-R3", "radon_torch: a projection is the sum over image rows of the rotated image (column sums at 0°)", str(pr), mod.line(rad),
                 fail_detail=f"projection = {pr}")

    # ---- R6 conformance of the code paths: one path for every angle, full complex transforms for the filter ------------------------------
    # reference radon(): every angle is resampled the same way (no special case for axis-aligned angles — a rot90 turns about (N−1)/2, the
    # reference about N//2).  reference iradon(): fft(img) * filter, real(ifft(·)) with the FULL length-n filter; the hamming/hann filters
    # are built from symmetric even-length windows and are NOT Hermitian-symmetric, so rfft/irfft is not equivalent.
    aloop = next((n for n in walk_no_nested_defs(rad) if isinstance(n, ast.For) and any(isinstance(x, ast.Call) and (call_name(x) or "").endswith("grid_sample") for x in ast.walk(n))), None)
    if aloop is None:
        raise AnalysisError("radon_torch: angle loop (the loop that calls grid_sample) not found")
    avars = {t.id for t in ast.walk(aloop.target) if isinstance(t, ast.Name)}
    dep = set(avars)
    for st in aloop.body:  # locals derived from the angle inside the loop
        if isinstance(st, ast.Assign) and names_in(st.value) & dep:
            dep |= {t.id for tg in st.targets for t in ast.walk(tg) if isinstance(t, ast.Name)}
    branches = [n for st in aloop.body for n in ast.walk(st) if isinstance(n, (ast.If, ast.IfExp, ast.While)) and names_in(n.test) & dep]
    check.decide(not branches, "C07-R6", "radon_torch: every projection angle takes the same resampling path (no angle-dependent branch)", "", mod.line(aloop),
                 fail_detail=f"`{unparse(branches[0].test)[:60]}` selects another code path for some angles: the reference has none — a quarter-turn shortcut rotates about (N−1)/2 "
                             f"instead of N//2 and shifts the 90°/180° rows by one detector pixel for even N" if branches else "")
    tf = [(call_name(c) or "").split(".")[-1] for c in calls_in(irad) if ".fft." in "." + (call_name(c) or "") + "."]
    ffil = [c for c in calls_in(irad) if (call_name(c) or "").endswith("get_fourier_filter_torch")]
    if len(ffil) != 1:
        raise AnalysisError("iradon_torch: filter construction call not found")
    fname = next((n.targets[0].id for n in walk_no_nested_defs(irad) if isinstance(n, ast.Assign) and n.value is ffil[0] and isinstance(n.targets[0], ast.Name)), None)
    sliced = [unparse(x)[:50] for x in ast.walk(irad) if isinstance(x, ast.Subscript) and isinstance(x.value, ast.Name) and x.value.id == fname] if fname else []
    check.decide(sorted(tf) == ["fft", "ifft"] and not sliced, "C07-R6", "iradon_torch: the filter is applied between a full complex fft and ifft over the whole filter (as the reference)", str(tf),
                 mod.line(ffil[0]), fail_detail=f"transform calls {tf}, filter slices {sliced}: a half-spectrum (rfft/irfft) product equals the reference only for Hermitian-symmetric filters; "
                                                f"the reference's hamming/hann filters are one sample off symmetry")

    # ---- R4 grid_sample pairing -----------------------------------------------------------------------------------------
    gs = [c for c in calls_in(rad) if (call_name(c) or "").endswith("grid_sample")]
    if len(gs) != 1:
        raise AnalysisError("radon_torch: grid_sample call not found")
    g = gs[0]
    pm, ac, md = kwarg(g, "padding_mode"), kwarg(g, "align_corners"), kwarg(g, "mode")
    check.decide(pm is not None and is_const(pm, "zeros"), "C07-R4", "radon_torch: samples outside the image are zero (reference: warp with constant 0 fill)",
                 unparse(pm) if pm is not None else "default", mod.line(g),
                 fail_detail=f"padding_mode={unparse(pm) if pm is not None else 'default'}: rays leaving the image pick up edge values instead of 0")
    check.decide(md is not None and is_const(md, "bilinear"), "C07-R4", "radon_torch: bilinear interpolation (reference: order-1 warp)", "", mod.line(g),
                 fail_detail=f"mode={unparse(md) if md is not None else 'default'}")
    gd = [d for d in definitions(rad, "grid") if isinstance(d, ast.AST)]
    ok = ac is not None and is_const(ac, True) and len(gd) == 1
    if ok:
        try:
            ok = from_ast(gd[0]).equals(Rat.const(2) * Rat.sym("coords_rot") / (Rat.sym("N") - Rat.const(1)) - Rat.const(1))
        except NotArithmetic:
            ok = False
    check.decide(ok, "C07-R4", "radon_torch: align_corners=True is paired with the 2·x/(N−1) − 1 normalisation", "", mod.line(g),
                 fail_detail="align_corners / normalisation mismatch: integer pixel positions are not sampled exactly")
    # disc mask: which pixels survive.  Reference: `outside_reconstruction_circle = dist > radius**2` (strictly outside is outside) — the kept
    # region is the CLOSED disc dist² ≤ r².  The torch port may multiply by the kept mask, masked_fill the outside, or torch.where; all three
    # are reduced to the relation of the kept region.
    ref_out = [n.value for n in ast.walk(ref_fns["radon"]) if isinstance(n, ast.Assign) and dotted(n.targets[0]) == "outside_reconstruction_circle"]
    if len(ref_out) != 1 or not (isinstance(ref_out[0], ast.Compare) and isinstance(ref_out[0].ops[0], ast.Gt)):
        raise AnalysisError("reference radon: `outside_reconstruction_circle = dist > radius**2` not found — update the conformance table")
    NEG = {ast.Gt: "<=", ast.GtE: "<", ast.Lt: ">=", ast.LtE: ">"}
    POS = {ast.Gt: ">", ast.GtE: ">=", ast.Lt: "<", ast.LtE: "<="}

    def _rel(e, kept: bool):
        """relation `dist² REL r²` describing the KEPT pixels, from a comparison that describes the kept (kept=True) or zeroed region"""
        if isinstance(e, ast.Name):
            ds = [d for d in definitions(rad, e.id) if isinstance(d, ast.AST)]
            return _rel(ds[0], kept) if len(ds) == 1 else None
        if isinstance(e, ast.UnaryOp) and isinstance(e.op, (ast.Invert, ast.Not)):
            return _rel(e.operand, not kept)
        if isinstance(e, ast.Compare) and len(e.ops) == 1 and type(e.ops[0]) in POS and "radius" in unparse(e.comparators[0]) and "radius" not in unparse(e.left):
            return (POS if kept else NEG)[type(e.ops[0])]
        return None
    kept_rel = None
    site = None
    for n in walk_no_nested_defs(rad):
        if isinstance(n, ast.AugAssign) and isinstance(n.op, ast.Mult) and dotted(n.target) == "images":
            kept_rel, site = _rel(n.value, True), n
        elif isinstance(n, ast.Assign) and dotted(n.targets[0]) == "images" and isinstance(n.value, ast.BinOp) and isinstance(n.value.op, ast.Mult):
            for a, b in ((n.value.left, n.value.right), (n.value.right, n.value.left)):
                if dotted(a) == "images" and _rel(b, True):
                    kept_rel, site = _rel(b, True), n
        elif isinstance(n, (ast.Assign, ast.Expr)) and isinstance(n.value, ast.Call) and isinstance(n.value.func, ast.Attribute) and n.value.func.attr in ("masked_fill", "masked_fill_") \
                and n.value.args and len(n.value.args) >= 2 and is_const(n.value.args[1], 0):
            kept_rel, site = _rel(n.value.args[0], False), n
        elif isinstance(n, ast.Assign) and dotted(n.targets[0]) == "images" and isinstance(n.value, ast.Call) and (call_name(n.value) or "").endswith("where") and len(n.value.args) == 3:
            c_, a_, b_ = n.value.args
            if dotted(a_) == "images":
                kept_rel, site = _rel(c_, True), n
            elif dotted(b_) == "images":
                kept_rel, site = _rel(c_, False), n
    if kept_rel is None:
        raise AnalysisError("radon_torch: the disc mask applied to `images` was not recognised (multiply by mask / masked_fill / where)")
    check.decide(kept_rel == "<=", "C07-R3", "radon_torch: the disc mask keeps dist² ≤ radius² (reference: only dist² > radius² is outside)", f"kept: dist² {kept_rel} r²", mod.line(site),
                 definite=True, fail_detail=f"kept region is dist² {kept_rel} radius²: pixels exactly on the rim (axis extremes, Pythagorean points) are treated differently from the reference — the "
                                            f"sinogram of an image that is non-zero there deviates")
    # rotation matrix: the linear part must equal the reference's R[:2, :2]
    rref = ref_fns["radon"]
    Rdef = [n.value for n in ast.walk(rref) if isinstance(n, ast.Assign) and dotted(n.targets[0]) == "R"]
    rot = [d for d in definitions(rad, "rot") if isinstance(d, ast.AST) and isinstance(d, ast.Call) and (call_name(d) or "").endswith("tensor")]

    def mat2(e, cos_names, sin_names):
        lst = e.args[0] if isinstance(e, ast.Call) and e.args else None
        if not isinstance(lst, ast.List) or len(lst.elts) < 2:
            return None
        out = []
        for row in lst.elts[:2]:
            if not isinstance(row, ast.List) or len(row.elts) < 2:
                return None
            r_ = []
            for x in row.elts[:2]:
                sign, y = 1, x
                if isinstance(y, ast.UnaryOp) and isinstance(y.op, ast.USub):
                    sign, y = -1, y.operand
                t_ = unparse(y)
                if t_ in cos_names:
                    r_.append((sign, "c"))
                elif t_ in sin_names:
                    r_.append((sign, "s"))
                else:
                    return None
            out.append(tuple(r_))
        return tuple(out)
    m_ref = mat2(Rdef[0], {"cos_a"}, {"sin_a"}) if Rdef else None
    m_t = mat2(rot[0], {"torch.cos(angle_rad)"}, {"torch.sin(angle_rad)"}) if rot else None
    if m_ref is None:
        raise AnalysisError("reference radon: rotation matrix R not understood")
    if m_t is None:
        raise AnalysisError("radon_torch: rotation matrix `rot` not understood")
    check.decide(m_t == m_ref, "C07-R4", "radon_torch: the sampling grid is rotated with the reference's matrix [[cos, sin], [−sin, cos]]", str(m_t), mod.line(rot[0]),
                 fail_detail=f"rot = {m_t}, reference R[:2,:2] = {m_ref}: a rotation combined with a reflection about N//2 drops one image row for even N "
                             f"(sinograms deviate by several % when the disc rim carries signal; the 0° projection is not the column sum)")
    ang = [unparse(d) for d in definitions(rad, "angle_rad") if isinstance(d, ast.AST)]
    check.decide(ang == ["torch.deg2rad(angle)"], "C07-R4", "radon_torch: angles are given in degrees as in the reference", str(ang), mod.line(rad), fail_detail=str(ang))
    cen = [unparse(d) for d in definitions(rad, "center") if isinstance(d, ast.AST)]
    ok = "N // 2" in cen and "coords = torch.stack((grid_x - center, grid_y - center), dim=-1)" in unparse(rad)
    check.decide(ok, "C07-R4", "radon_torch: rotation centre N//2 and (x, y) = (col, row) coordinate order for grid_sample", str(cen), mod.line(rad),
                 fail_detail="rotation centre or coordinate order deviates")


def _mul_factors(e: ast.AST) -> list:
    if isinstance(e, ast.BinOp) and isinstance(e.op, ast.Mult):
        return _mul_factors(e.left) + _mul_factors(e.right)
    return [e]


def _normalise_effects(eff):
    out = []
    for e in eff:
        out.append(_strip_casts(e))
    return out


def _strip_casts(c):
    """Drop dtype/shape bookkeeping that has no numerical meaning (float(), zeros dtype)."""
    if isinstance(c, tuple):
        if c and c[0] == "call" and c[1] in ("int", "float") and len(c) == 3:
            return _strip_casts(c[2])
        if c and c[0] == "const" and isinstance(c[1], float):
            return ("const", float(c[1]))
        return tuple(_strip_casts(x) for x in c)
    if isinstance(c, list):
        return [_strip_casts(x) for x in c]
    return c


MANIFEST = {
    "text": "Decides port conformance structurally for all sizes: the torch filter table is compared arm by arm (and the base ramp "
            "statement by statement) with the scikit-image source under a numpy→torch equivalence table that encodes the known "
            "semantic differences (linspace end point, symmetric vs periodic windows, //2 of an even size); padded size, π/(2A) "
            "scaling, strict circle mask, ray coordinate, detector-bin offset N//2, default output size and default angles are "
            "compared as expressions/polynomial identities; neither transform reduces over the batch axis or applies a "
            "non-linear operation to the data; grid_sample uses zeros padding, bilinear mode and align_corners=True with (N−1).",
    "note": "Not decided: numerical agreement of the rotation sampling with skimage.transform.warp and of the back-projection "
            "boundary handling (clamp vs np.interp(left=0, right=0)), tolerance. The reference is the installed scikit-image "
            "source; if it is absent the check is an analysis error.",
    "technique": "sibling (port) conformance against the reference source via canonical forms + rational normal forms (AST)",
}
MANIFEST["text"] += " radon_torch's disc mask is reduced to the relation of the KEPT region (multiply by mask / masked_fill / where) and compared with the reference's `dist > radius²` outside test (closed disc)."
MANIFEST["text"] += ' R8: forward taint of the projection angles from `theta` through locals and module helpers up to the trigonometric calls — no modular reduction, clamping, rounding or re-ordering on the way.'
MANIFEST["text"] += ' R9 (coupled): the transform length of the filtering step is the padded size — explicit padding, or `n=f_filter.shape[k]` with k the axis on which the filter returns its samples.'
