"""C13 — image registration returns the applied shift: DFT-kernel kinds, sign pairing,
numpy/torch agreement (E5, E7, E8)."""
from __future__ import annotations

import ast

from ..core.repo import (AnalysisError, Repo, call_name, calls_in, definitions, dotted, func_params, is_const,
                         kwarg, names_in, unparse, walk_no_nested_defs)
from ..domains.algnf import NotArithmetic, Rat, from_ast
from ..domains.kat import COL, ROW, Comp, Ext, KAT, Pair, Seq

IU = "quantem.core.utils.imaging_utils"
IMG = {0: ROW, 1: COL}

EXPLANATION = (
    "structural conventions of the cross-correlation estimators: in every matrix-DFT kernel the "
    "frequency operand is the pure FFT-ordered index vector of the extent that also normalises the "
    "exponent, the patch offset sits on the output-sample operand, and the kernel sign/conjugation "
    "evaluates the inverse transform of the correlation; the peak index is re-centred by the patch's "
    "own centre; row/column indices, wraps and extents never cross axes (kinded-axis analysis); "
    "centred index vectors are of the FFT-ordered form for both parities; the second image is "
    "conjugated in the correlation and receives the negative ramp; every return of the aligned image "
    "passes the output-domain dispatch; all parabolic refinements are one formula"
)

# FFT-ordered signed index vectors 0,1,…,⌈n/2⌉−1,−⌊n/2⌋,…,−1 — closed idiom table (one reason per entry)
GOOD_INDEX_FORMS = [
    ("fftfreq({n}, 1 / {n})", "integer frequencies in FFT order"),
    ("fftfreq({n}, d=1 / {n})", "integer frequencies in FFT order"),
    ("fftfreq({n}) * {n}", "integer frequencies in FFT order"),
    ("ifftshift(arange({n})) - {n} // 2", "ifftshift moves index n//2 to 0 for both parities"),
    ("ifftshift(arange({n})) - floor({n} / 2)", "same, float floor"),
    ("ifftshift(arange({n}) - {n} // 2)", "same, shift after centring"),
]
BAD_INDEX_FORMS = [
    ("fftfreq({n}, d=1.0)", "frequencies in cycles per sample, not integer indices"),
    ("fftfreq({n}, 1.0)", "frequencies in cycles per sample, not integer indices"),
    ("fftfreq({n})", "frequencies in cycles per sample, not integer indices"),
    ("arange({n}) - {n} // 2", "centred, not FFT-ordered: zero is at index n//2 instead of 0"),
    ("fftshift(arange({n})) - {n} // 2", "fftshift moves index 0 to n//2: off by one for odd n"),
    ("fftshift(arange({n}) - {n} // 2)", "fftshift of a centred ramp: off by one for odd n"),
]


def _norm_index_form(e: ast.AST) -> str:
    """Strip module prefixes / device kwargs so that forms can be compared textually."""
    e = ast.parse(unparse(e), mode="eval").body  # fresh copy without parent links
    for n in ast.walk(e):
        if isinstance(n, ast.Call):
            n.keywords = [k for k in n.keywords if k.arg not in ("device", "dtype")]
            d = dotted(n.func)
            if d:
                n.func = ast.Name(id=d.split(".")[-1], ctx=ast.Load())
    return unparse(e)


def classify_index_vector(e: ast.AST):
    """('good'|'bad'|None, extent text, reason)"""
    txt = _norm_index_form(e)
    ar = [c for c in ast.walk(e) if isinstance(c, ast.Call) and (call_name(c) or "").split(".")[-1] in ("arange", "fftfreq") and c.args]
    if not ar:
        return None, None, "no arange/fftfreq"
    n = _norm_index_form(ar[0].args[0])
    for form, why in GOOD_INDEX_FORMS:
        if txt == form.format(n=n) or txt == form.format(n=n).replace("floor", "math.floor"):
            return "good", n, why
    for form, why in BAD_INDEX_FORMS:
        if txt == form.format(n=n):
            return "bad", n, why
    return None, n, f"`{txt}` not in the idiom table"


def _exp_kernels(fn: ast.AST):
    """exp(<factor> * outer(a, b)) or exp(<factor> * (a.unsqueeze(1) * b.unsqueeze(0))) sites →
    list of dict(node, factor, a, b)."""
    out = []
    for c in ast.walk(fn):
        if not (isinstance(c, ast.Call) and (call_name(c) or "").split(".")[-1] == "exp" and c.args):
            continue
        arg = c.args[0]
        if not (isinstance(arg, ast.BinOp) and isinstance(arg.op, ast.Mult)):
            continue
        factor, prod = arg.left, arg.right
        a = b = None
        if isinstance(prod, ast.Call) and (call_name(prod) or "").split(".")[-1] == "outer" and len(prod.args) == 2:
            a, b = prod.args
        elif isinstance(prod, ast.BinOp) and isinstance(prod.op, ast.Mult):
            l, r = prod.left, prod.right
            if all(isinstance(x, ast.Call) and isinstance(x.func, ast.Attribute) and x.func.attr == "unsqueeze" for x in (l, r)):
                if unparse(l.args[0]) == "1" and unparse(r.args[0]) == "0":
                    a, b = l.func.value, r.func.value
        if a is not None:
            out.append({"node": c, "factor": factor, "a": a, "b": b})
    return out


def _resolve(fn, e: ast.AST, depth=0) -> ast.AST:
    if isinstance(e, ast.Name) and depth < 4:
        dd = [d for d in definitions(fn, e.id) if isinstance(d, ast.AST)]
        if len(dd) == 1:
            return _resolve(fn, dd[0], depth + 1)
    return e


def _broadcast_pos(sl: ast.AST):
    """axis a 1-D vector is laid along by `v[:, None]` (0) / `v[None, :]` (1); None otherwise"""
    elts = sl.elts if isinstance(sl, ast.Tuple) else [sl]
    if len(elts) != 2:
        return None
    kinds = ["n" if is_const(e, None) else ("s" if isinstance(e, ast.Slice) and e.lower is None and e.upper is None else "?") for e in elts]
    return {("s", "n"): 0, ("n", "s"): 1}.get(tuple(kinds))


def _rule_memo(check, repo: Repo, mod) -> None:
    """Every function of imaging_utils that stores into a module-level container keys the entry on all of its parameters that the stored value depends on."""
    tops = {}
    for st in mod.tree.body:
        tg = st.targets[0] if isinstance(st, ast.Assign) else (st.target if isinstance(st, ast.AnnAssign) else None)
        val = getattr(st, "value", None)
        if isinstance(tg, ast.Name) and val is not None and (isinstance(val, (ast.Dict, ast.List, ast.Set)) or
                                                             (isinstance(val, ast.Call) and (call_name(val) or "") in ("dict", "list", "set", "OrderedDict", "defaultdict"))):
            tops[tg.id] = st
    n_fn = 0
    from ..core.repo import is_referenced
    for fn in [n for n in ast.walk(mod.tree) if isinstance(n, (ast.FunctionDef, ast.AsyncFunctionDef))]:
        if not is_referenced(repo, fn):
            continue  # an unused private helper: no registration result depends on it
        n_fn += 1
        params = set(func_params(fn))
        for n in ast.walk(fn):
            store = None
            if isinstance(n, ast.Assign) and isinstance(n.targets[0], ast.Subscript) and isinstance(n.targets[0].value, ast.Name) and n.targets[0].value.id in tops \
                    and not definitions(fn, n.targets[0].value.id):
                store = (n.targets[0].value.id, n.targets[0].slice, n.value)
            elif isinstance(n, ast.Call) and isinstance(n.func, ast.Attribute) and isinstance(n.func.value, ast.Name) and n.func.value.id in tops \
                    and n.func.attr in ("append", "add", "extend", "update", "setdefault", "insert") and not definitions(fn, n.func.value.id):
                check.violated("C13-R5", f"{fn.name}: no state is kept between calls", f"`{unparse(n)[:70]}` accumulates into the module-level `{n.func.value.id}`: the result of a call depends on "
                               f"earlier calls", mod.line(n))
                continue
            if store is None:
                continue
            g, key, val = store
            dep, seen, stack = set(), set(), [val]
            while stack:
                e = stack.pop()
                for x in ast.walk(e):
                    if isinstance(x, ast.Name) and x.id not in seen:
                        seen.add(x.id)
                        if x.id in params and not [d for d in definitions(fn, x.id)]:
                            dep.add(x.id)
                        for d in definitions(fn, x.id):
                            if isinstance(d, ast.AST):
                                stack.append(d)
                            elif hasattr(d, "value") and isinstance(d.value, ast.AST):
                                stack.append(d.value)
            keyed, seen2, stack = set(), set(), [key]
            while stack:
                e = stack.pop()
                for x in ast.walk(e):
                    if isinstance(x, ast.Name) and x.id not in seen2:
                        seen2.add(x.id)
                        if x.id in params:
                            keyed.add(x.id)
                        for d in definitions(fn, x.id):
                            if isinstance(d, ast.AST):
                                stack.append(d)
            missing = sorted(dep - keyed)
            check.decide(not missing, "C13-R5", f"{fn.name}: the cache `{g}` is keyed on every parameter the cached value depends on", f"key `{unparse(key)[:40]}`", mod.line(n), definite=True,
                         fail_detail=f"`{g}[{unparse(key)[:40]}]` caches a value that depends on parameter(s) {missing} which are not part of the key: a later call with another "
                                     f"{missing[0]} silently reuses the first one's value")
    check.holds("C13-R5", "imaging_utils: registration helpers keep no un-keyed module-level state", f"{n_fn} functions, module-level containers: {sorted(tops) or 'none'}", nontrivial=False)


def _forward_slice_names(fn, seeds: set[str]) -> set[str]:
    names = set(seeds)
    changed = True
    while changed:
        changed = False
        for n in walk_no_nested_defs(fn):
            if isinstance(n, ast.Assign):
                if names_in(n.value) & names:
                    for t in n.targets:
                        for x in ast.walk(t):
                            if isinstance(x, ast.Name) and x.id not in names:
                                names.add(x.id)
                                changed = True
    return names


class _Strip(ast.NodeTransformer):
    """value-preserving wrappers are transparent for the algebra: float(x), int(x) on an index, x.item(), x.to(…), x.astype(…), x.long();
    two-element vectors np.array([a, b]) / torch.tensor([a, b]) become one symbol per component pair"""

    def visit_Call(self, n):
        self.generic_visit(n)
        cn = call_name(n) or ""
        last = cn.split(".")[-1]
        if cn in ("float", "int") and len(n.args) == 1:
            return n.args[0]
        if isinstance(n.func, ast.Attribute) and last in ("item", "to", "astype", "long", "float", "double") and not (cn.startswith(("np.", "torch.", "xp."))):
            return n.func.value
        if last in ("array", "tensor", "asarray") and len(n.args) >= 1:
            a = n.args[0]
            if isinstance(a, (ast.List, ast.Tuple)) and len(a.elts) == 2:
                return ast.Name(id="vec⟨" + ",".join(unparse(e) for e in a.elts) + "⟩", ctx=ast.Load())
            if isinstance(a, ast.Name):
                return ast.Name(id=f"vec⟨{a.id}⟩", ctx=ast.Load())
        return n


def _nf(e: ast.AST, env=None) -> Rat:
    import copy
    from ..core.alpha import clone
    t = _Strip().visit(clone(e))

    def atom(x):
        cn = call_name(x) if isinstance(x, ast.Call) else None
        if cn and cn.split(".")[-1] == "round" and len(x.args) == 1:
            return f"round⟨{_nf(x.args[0], env)!r}⟩"
        return f"⟨{unparse(x)}⟩"
    return from_ast(t, env or {}, atom)


def _const_int(e):
    if isinstance(e, ast.Constant) and isinstance(e.value, int) and not isinstance(e.value, bool):
        return e.value
    if isinstance(e, ast.UnaryOp) and isinstance(e.op, ast.USub) and isinstance(e.operand, ast.Constant) and isinstance(e.operand.value, int):
        return -e.operand.value
    return None


def _neighbour_vector(fn, e):
    """Normal form of a neighbour index vector: (base name, offsets, wrapped by which extent text | None) or None when not understood.
    Understands mod(base + arange(a, b), n), (base + arange(a, b)) % n, [((base + d) % n) for d in (…)] and value-preserving casts."""
    while isinstance(e, ast.Call) and isinstance(e.func, ast.Attribute) and e.func.attr in ("astype", "long", "to") and not (call_name(e) or "").startswith(("np.", "torch.", "xp.")):
        e = e.func.value
    extent = None
    loopvar = None
    offs = None
    if isinstance(e, ast.ListComp) and len(e.generators) == 1 and isinstance(e.generators[0].target, ast.Name) and isinstance(e.generators[0].iter, (ast.Tuple, ast.List)):
        offs = [_const_int(x) for x in e.generators[0].iter.elts]
        loopvar = e.generators[0].target.id
        e = e.elt
    if isinstance(e, ast.Call) and (call_name(e) or "").split(".")[-1] in ("mod", "remainder") and len(e.args) == 2:
        e, extent = e.args[0], unparse(e.args[1])
    elif isinstance(e, ast.BinOp) and isinstance(e.op, ast.Mod):
        e, extent = e.left, unparse(e.right)
    if not (isinstance(e, ast.BinOp) and isinstance(e.op, ast.Add)):
        return None
    base = None
    for a, b in ((e.left, e.right), (e.right, e.left)):
        if isinstance(a, ast.Name):
            if loopvar is not None and isinstance(b, ast.Name) and b.id == loopvar:
                base = a.id
                break
            if isinstance(b, ast.Call) and (call_name(b) or "").split(".")[-1] == "arange" and 1 <= len(b.args) <= 2 and all(_const_int(x) is not None for x in b.args):
                vals = [_const_int(x) for x in b.args]
                offs = list(range(*vals))
                base = a.id
                break
    if base is None or offs is None or any(o is None for o in offs):
        return None
    return base, offs, extent


def _rule_patch_radius(check, mod, fns) -> None:
    """R7: the upsampled patch has half-width ceil(1.5·up) in every routine that builds it or re-centres a peak found in it.  The same quantity rounded differently
    (int(1.5·up), floor, round, //) differs from it for odd factors by one sample: identical images are then measured at ±1/up."""
    n = 0
    for label, fn in fns:
        for x in ast.walk(fn):
            if not (isinstance(x, ast.BinOp) and isinstance(x.op, ast.Mult)):
                continue
            ops = (x.left, x.right)

            def is15(e_):
                if isinstance(e_, ast.Constant) and e_.value == 1.5:
                    return True
                if isinstance(e_, ast.Name):
                    ds_ = [d for d in definitions(fn, e_.id) if isinstance(d, ast.AST)]
                    return len(ds_) == 1 and isinstance(ds_[0], ast.Constant) and ds_[0].value == 1.5
                return False
            if not any(is15(o) for o in ops) or not any("up" in unparse(o).lower() for o in ops if not is15(o)):
                continue
            n += 1
            # climb through value-preserving wrappers to the rounding that is applied
            cur, par = x, getattr(x, "_parent", None)
            rounding = None
            while par is not None:
                if isinstance(par, ast.Call) and cur in par.args:
                    nm = (call_name(par) or "").split(".")[-1]
                    if nm in ("tensor", "float", "asarray", "array", "as_tensor"):
                        cur, par = par, getattr(par, "_parent", None)
                        continue
                    rounding = nm
                elif isinstance(par, ast.BinOp) and isinstance(par.op, ast.FloorDiv) and par.left is cur:
                    rounding = "//"
                break
            check.decide(rounding == "ceil", "C13-R7", f"{label}: the patch half-width `{unparse(x)}` is rounded up (ceil), as in every other routine", str(rounding), mod.line(x),
                         definite=rounding in ("int", "floor", "round", "trunc", "//", "rint"),
                         fail_detail=f"`{unparse(getattr(cur, '_parent', cur))[:60]}` rounds 1.5·up with `{rounding}` where the patch is built with ceil: for odd factors the two differ by one "
                                     f"sample — the local peak is re-centred by the wrong index and identical images return a shift of ±1/up")
    check.floor("1.5·up patch half-width expressions", n, 3)


def _rule_peak_pipeline(check, mod, ccs, ali, ups, kinds=None) -> None:
    """R6: the value-level skeleton of the estimators, decided by small normal forms (robust to algebraic re-spelling):
    peak selection is an arg-MAXIMUM; the three refinement samples are the peak's −1/0/+1 neighbours (wrapped by the extent of their own axis
    for the coarse, circular correlation; the 3×3 slice [p−1, p+2) for the upsampled patch); the refined coordinate ADDS the parabolic offset
    measured along its own axis; the final estimate is coarse + (local peak − centre + sub-sample offset) / upsample factor."""
    # A. selectors
    n_sel = 0
    for label, fn in (("cross_correlation_shift", ccs), ("align_images_fourier_torch", ali), ("upsampled_correlation_torch", ups)):
        for c in calls_in(fn):
            last = (call_name(c) or "").split(".")[-1]
            if last not in ("argmax", "argmin", "nanargmax", "nanargmin"):
                continue
            n_sel += 1
            operand = c.args[0] if c.args else (c.func.value if isinstance(c.func, ast.Attribute) else None)
            negated = isinstance(operand, ast.UnaryOp) and isinstance(operand.op, ast.USub)
            ok = last.endswith("argmax") != negated
            check.decide(ok, "C13-R6", f"{label}: the correlation peak `{unparse(c)[:40]}` is an arg-maximum", "", mod.line(c), definite=True,
                         fail_detail=f"`{unparse(c)[:60]}` selects the minimum of the correlation: the returned shift is that of the worst match")
    check.floor("peak selectors", n_sel, 4)
    # B. 3×3 patches around the upsampled peak
    n_patch = 0
    for label, fn in (("cross_correlation_shift", ccs), ("upsampled_correlation_torch", ups)):
        for sub in ast.walk(fn):
            if not (isinstance(sub, ast.Subscript) and isinstance(sub.slice, ast.Tuple) and len(sub.slice.elts) == 2 and all(isinstance(x, ast.Slice) and x.lower is not None and x.upper is not None
                                                                                                                 for x in sub.slice.elts)):
                continue
            centres = []
            ok = True
            for sl in sub.slice.elts:
                names = {x.id for x in ast.walk(sl) if isinstance(x, ast.Name)}
                if len(names) != 1:
                    ok = None
                    break
                pnm = next(iter(names))
                try:
                    lo, hi = _nf(sl.lower) - Rat.sym(pnm), _nf(sl.upper) - Rat.sym(pnm)
                except NotArithmetic:
                    ok = None
                    break
                ok = ok and lo.equals(Rat.const(-1)) and hi.equals(Rat.const(2))
                centres.append(pnm)
            if ok is None or len(set(centres)) != 2:
                continue
            n_patch += 1
            check.decide(bool(ok), "C13-R6", f"{label}: the refinement patch is [p−1, p+2) around the upsampled peak on both axes", unparse(sub)[:70], mod.line(sub), definite=True,
                         fail_detail=f"`{unparse(sub)[:80]}` is not the 3×3 neighbourhood centred on the peak: the parabola is fitted to samples that do not straddle the maximum")
            env_ = (kinds or {}).get(label, {})
            k0, k1 = env_.get(centres[0]), env_.get(centres[1])
            if isinstance(k0, Comp) and isinstance(k1, Comp):
                check.decide(k0.axis == ROW and k1.axis == COL, "C13-R6", f"{label}: the patch is cut with the row index on axis 0 and the column index on axis 1", f"{k0} {k1}",
                             mod.line(sub), definite=True, fail_detail=f"`{unparse(sub)[:80]}`: axis 0 is indexed by {k0}, axis 1 by {k1} — the patch is taken around the transposed position")
    check.floor("3×3 refinement patches", n_patch, 2)
    # C/D. coarse neighbours and refinement, per estimator
    n_ref = 0
    for label, fn in (("cross_correlation_shift", ccs), ("align_images_fourier_torch", ali)):
        # coordinate ↔ its neighbour vector ↔ its profile ↔ its offset
        vecs = {}
        for n in walk_no_nested_defs(fn):
            if isinstance(n, ast.Assign) and len(n.targets) == 1 and isinstance(n.targets[0], ast.Name):
                nv = _neighbour_vector(fn, n.value)
                if nv is not None:
                    vecs[n.targets[0].id] = (nv, n)
        check.floor(f"{label}: neighbour index vectors", len(vecs), 2)
        for vname, ((base, offs, extent), node) in vecs.items():
            check.decide(offs == [-1, 0, 1], "C13-R6", f"{label}: `{vname}` addresses the −1/0/+1 neighbours of `{base}` in this order", str(offs), mod.line(node), definite=True,
                         fail_detail=f"offsets are {offs}: the parabola through v[0], v[1], v[2] assumes the samples at −1, 0, +1 around the peak")
            check.decide(extent is not None, "C13-R6", f"{label}: `{vname}` is wrapped by an extent (the sum base+offset is the first operand of the modulo)", str(extent), mod.line(node),
                         fail_detail="the neighbour indices are not reduced modulo the extent (or the operands of the modulo are exchanged)")
        # profiles: v = cc_real[vec, other] / cc_real[other, vec]  → axis of the vector
        prof_axis = {}
        for n in walk_no_nested_defs(fn):
            if isinstance(n, ast.Assign) and len(n.targets) == 1 and isinstance(n.targets[0], ast.Name) and isinstance(n.value, ast.Subscript) and isinstance(n.value.slice, ast.Tuple) \
                    and len(n.value.slice.elts) == 2:
                for ax, el in enumerate(n.value.slice.elts):
                    if isinstance(el, ast.Name) and el.id in vecs:
                        prof_axis[n.targets[0].id] = (vecs[el.id][0][0], ax)
        # offsets: d = f(profile)
        off_of = {}
        for n in walk_no_nested_defs(fn):
            if isinstance(n, ast.Assign) and len(n.targets) == 1 and isinstance(n.targets[0], ast.Name):
                used = {x.id for x in ast.walk(n.value) if isinstance(x, ast.Name)} & set(prof_axis)
                if len(used) == 1 and n.targets[0].id not in prof_axis and isinstance(n.value, (ast.Call, ast.IfExp, ast.BinOp)):
                    off_of.setdefault(n.targets[0].id, prof_axis[next(iter(used))])
        # refinement statements: coord = g(coord + offset)
        for n in walk_no_nested_defs(fn):
            if not (isinstance(n, ast.Assign) and len(n.targets) == 1 and isinstance(n.targets[0], ast.Name)):
                continue
            coord = n.targets[0].id
            offs_used = [x.id for x in ast.walk(n.value) if isinstance(x, ast.Name) and x.id in off_of]
            if coord not in {b for b, _ in prof_axis.values()} or len(set(offs_used)) != 1:
                continue
            off = offs_used[0]
            inner = n.value
            wrapped = None
            if isinstance(inner, ast.BinOp) and isinstance(inner.op, ast.Mod):
                wrapped, inner = unparse(inner.right), inner.left
            try:
                got = _nf(inner)
            except NotArithmetic:
                raise AnalysisError(f"{label}: refinement `{unparse(n)[:60]}` is not arithmetic")
            c_, o_ = Rat.sym(coord), Rat.sym(off)
            want_plain = c_ + o_
            want_half = Rat.sym(f"round⟨{(want_plain * Rat.const(2))!r}⟩") / Rat.const(2)
            ok = got.equals(want_plain) or got.equals(want_half)
            n_ref += 1
            check.decide(ok, "C13-R6", f"{label}: refined `{coord}` = `{coord}` + its parabolic offset (optionally rounded to half pixels)", repr(got), mod.line(n), definite=True,
                         fail_detail=f"`{unparse(n)[:70]}` evaluates to {got!r}, not {coord} + {off}: the sub-pixel correction is applied with the wrong sign / scale")
            own = off_of[off][0] == coord
            check.decide(own, "C13-R6", f"{label}: `{coord}` is refined with the offset measured along its own axis", f"{off} ← neighbours of {off_of[off][0]}", mod.line(n), definite=True,
                         fail_detail=f"`{off}` was measured on the neighbours of `{off_of[off][0]}`, but corrects `{coord}`: row and column corrections are exchanged")
            if label == "cross_correlation_shift":
                check.decide(wrapped is not None, "C13-R6", f"{label}: refined `{coord}` is reduced modulo the extent (`%`)", str(wrapped), mod.line(n),
                             fail_detail=f"`{unparse(n)[:70]}`: the refined coordinate is not wrapped with `%` (a floor division or a plain sum leaves it outside the cell)")
    check.floor("coarse refinements", n_ref, 4)
    # E. composition of the upsampled estimate
    env = {}
    comp = None
    for n in ast.walk(ccs):
        if isinstance(n, ast.Assign) and dotted(n.targets[0]) == "shifts" and "peak" in unparse(n.value):
            comp = n
    if comp is None:
        raise AnalysisError("cross_correlation_shift: upsampled composition `shifts = … peak …` not found")
    try:
        val = _nf(comp.value)
        blk = next((b for x in ast.walk(ccs) for b in (getattr(x, "body", None), getattr(x, "orelse", None)) if isinstance(b, list) and comp in b), [])
        for st in blk[blk.index(comp) + 1:]:
            if isinstance(st, ast.AugAssign) and dotted(st.target) == "shifts" and isinstance(st.op, (ast.Add, ast.Sub)):
                v2 = _nf(st.value)
                val = val + v2 if isinstance(st.op, ast.Add) else val - v2
        cen = [d for d in definitions(ccs, "center") if isinstance(d, ast.AST)]
        up = Rat.sym("upsample_factor")
        want = Rat.sym("vec⟨x0,y0⟩") + (Rat.sym("vec⟨peak⟩") - Rat.sym("center")) / up + Rat.sym("vec⟨dxf,dyf⟩") / up
        ok = val.equals(want)
    except NotArithmetic as e_:
        raise AnalysisError(f"cross_correlation_shift: composition not arithmetic ({e_})")
    check.decide(ok, "C13-R6", "cross_correlation_shift: upsampled estimate = (x0, y0) + (peak − center + (dxf, dyf)) / upsample_factor", repr(val), mod.line(comp), definite=True,
                 fail_detail=f"the composition evaluates to {val!r}: coarse estimate, local peak, centre and sub-sample offset are not combined as coarse + (local − centre + δ)/up")
    # torch twin
    rets = [n for n in walk_no_nested_defs(ups) if isinstance(n, ast.Return) and n.value is not None]
    outs = [d for d in definitions(ups, "xyShift") if isinstance(d, ast.AST) and "xySubShift" in unparse(d)]
    if len(outs) != 1:
        raise AnalysisError("upsampled_correlation_torch: final composition `xyShift = xyShift + …` not found")
    try:
        got = _nf(outs[0])
        want = Rat.sym("xyShift") + (Rat.sym("xySubShift") + Rat.sym("vec⟨dx,dy⟩")) / Rat.sym("upsampleFactor")
        ok = got.equals(want)
    except NotArithmetic as e_:
        raise AnalysisError(f"upsampled_correlation_torch: composition not arithmetic ({e_})")
    check.decide(ok, "C13-R6", "upsampled_correlation_torch: refined estimate = xyShift + (xySubShift + (dx, dy)) / upsampleFactor", repr(got), mod.line(outs[0]), definite=True,
                 fail_detail=f"the composition evaluates to {got!r}")
    rnd = [d for d in definitions(ups, "xyShift") if isinstance(d, ast.AST) and "round" in unparse(d)]
    if len(rnd) == 1:
        try:
            g = _nf(rnd[0])
            upf = Rat.sym("upsampleFactor")
            ok = g.equals(Rat.sym(f"round⟨{(Rat.sym('xyShift') * upf)!r}⟩") / upf)
        except NotArithmetic:
            ok = False
        check.decide(ok, "C13-R6", "upsampled_correlation_torch: the incoming estimate is snapped to the 1/upsampleFactor grid (round(s·up)/up)", "", mod.line(rnd[0]), definite=True,
                     fail_detail=f"`{unparse(rnd[0])[:70]}` is not round(xyShift·up)/up: the coarse estimate is rescaled before the patch is placed")
    sub = [d for d in definitions(ups, "xySubShift") if isinstance(d, ast.AST) and "globalShift" in unparse(d)]
    if len(sub) == 1:
        try:
            g = _nf(sub[0])
            ok = g.equals(Rat.sym("xySubShift") - Rat.sym("globalShift"))
        except NotArithmetic:
            ok = False
        check.decide(ok, "C13-R6", "upsampled_correlation_torch: the local peak is re-centred by subtracting globalShift", "", mod.line(sub[0]), definite=True,
                     fail_detail=f"`{unparse(sub[0])[:70]}` does not subtract globalShift")


def run(check, repo: Repo) -> None:
    mod = repo.module(IU)
    _, dnp = repo.func(f"{IU}:dft_upsample")
    _, dto = repo.func(f"{IU}:dftUpsample_torch")
    _, ccs = repo.func(f"{IU}:cross_correlation_shift")
    _, cct = repo.func(f"{IU}:cross_correlation_shift_torch")
    _, ali = repo.func(f"{IU}:align_images_fourier_torch")
    _, ups = repo.func(f"{IU}:upsampled_correlation_torch")
    check.analysed(*(f"{IU}:{q}" for q in ("dft_upsample", "dftUpsample_torch", "cross_correlation_shift",
                                           "cross_correlation_shift_torch", "align_images_fourier_torch",
                                           "upsampled_correlation_torch")))

    # ---- R1 DFT-kernel kinds ------------------------------------------------------------------------
    n_k = 0
    signs = {}
    for label, fn, shift_param in (("dft_upsample", dnp, "shift"), ("dftUpsample_torch", dto, "xyShift")):
        ks = _exp_kernels(fn)
        if len(ks) != 2:
            raise AnalysisError(f"{label}: expected two matrix-DFT kernels, found {len(ks)}")
        shifted = _forward_slice_names(fn, {shift_param})
        # extents by role: the names destructured from `<array>.shape` → axis 0 ("M", rows) / axis 1 ("N", columns)
        ext_role = {}
        for st_ in walk_no_nested_defs(fn):
            if isinstance(st_, ast.Assign) and isinstance(st_.targets[0], ast.Tuple) and len(st_.targets[0].elts) == 2 \
                    and isinstance(st_.value, ast.Attribute) and st_.value.attr == "shape":
                for ax_, t_ in enumerate(st_.targets[0].elts):
                    if isinstance(t_, ast.Name):
                        ext_role[t_.id] = "MN"[ax_]
        if sorted(ext_role.values()) != ["M", "N"]:
            raise AnalysisError(f"{label}: `<rows>, <cols> = <array>.shape` not found")
        for kn in ks:
            n_k += 1
            ra, rb = _resolve(fn, kn["a"]), _resolve(fn, kn["b"])
            ca, cb = classify_index_vector(ra), classify_index_vector(rb)
            freq = [(x, c, r) for x, c, r in ((kn["a"], ca, ra), (kn["b"], cb, rb)) if c[0] in ("good", "bad")]
            fac = _resolve(fn, kn["factor"])
            # sign of the exponent
            try:
                f = from_ast(fac, {"np.pi": Rat.sym("pi"), "math.pi": Rat.sym("pi")}, atom=lambda e: ("I" if isinstance(e, ast.Constant) and isinstance(e.value, complex) else
                                                                                                      (unparse(e) if isinstance(e, ast.Name) else None)))
            except NotArithmetic:
                f = None
            sgn = None
            for x in ast.walk(fac):
                if isinstance(x, ast.Constant) and isinstance(x.value, complex):
                    sgn = 1 if x.value.imag > 0 else -1
                    par = x
            neg = any(isinstance(x, ast.UnaryOp) and isinstance(x.op, ast.USub) and isinstance(x.operand, ast.Constant) and isinstance(x.operand.value, complex) for x in ast.walk(fac))
            if sgn is not None and neg:
                sgn = -sgn
            signs.setdefault(label, set()).add(sgn)
            which = "row" if len(freq) == 1 and freq[0][0] is kn["b"] else "col"
            tag = f"{label}[{which} kernel]"
            if len(freq) != 1:
                # an operand that mixes the index vector with something else is not classified as pure
                impure = [unparse(r)[:60] for r in (ra, rb) if any(isinstance(c, ast.Call) and (call_name(c) or "").endswith("ifftshift") for c in ast.walk(r))]
                check.violated("C13-R1", f"{label}: exactly one operand of each kernel is the pure frequency index vector",
                               f"operands `{unparse(ra)[:60]}` / `{unparse(rb)[:60]}`: "
                               + (f"the frequency operand {impure} carries extra terms (e.g. the patch offset)" if impure else "no pure frequency operand found"),
                               mod.line(kn["node"]))
                continue
            fx, fc, fr = freq[0]
            other_op = kn["b"] if fx is kn["a"] else kn["a"]
            other_r = rb if fx is kn["a"] else ra
            check.decide(fc[0] == "good", "C13-R1", f"{tag}: frequency operand is the FFT-ordered index vector for both parities", fc[2], mod.line(kn["node"]),
                         fail_detail=f"`{unparse(fr)[:70]}`: {fc[2]}")
            leaked = (names_in(fr) | ({fx.id} if isinstance(fx, ast.Name) else set())) & (shifted - {shift_param}) or (shift_param in names_in(fr))
            check.decide(not leaked, "C13-R1", f"{tag}: the frequency operand does not depend on the shift argument", "", mod.line(kn["node"]),
                         fail_detail=f"the frequency operand `{unparse(fr)[:70]}` depends on {sorted(leaked) if not isinstance(leaked, bool) else shift_param}: the window "
                                     f"offset must sit on the output-sample operand (FreqIndex + PixelCoord is ill-kinded)")
            on_other = bool(names_in(other_r) & shifted) or (isinstance(other_op, ast.Name) and other_op.id in shifted)
            check.decide(on_other, "C13-R1", f"{tag}: the patch offset derived from the shift sits on the output-sample operand", "", mod.line(kn["node"]),
                         fail_detail=f"the output-sample operand `{unparse(other_r)[:60]}` does not depend on `{shift_param}`: the patch is not centred on the coarse peak")
            # same extent in the index vector and in the exponent's normalisation
            if fc[1] not in ext_role:
                raise AnalysisError(f"{label}: the frequency vector's extent `{fc[1]}` is not one of the destructured shape names {sorted(ext_role)}")
            own = ext_role[fc[1]]
            ext_in_factor = sorted(ext_role[nm] for nm in names_in(fac) if nm in ext_role)
            check.decide(ext_in_factor == [own], "C13-R1", f"{tag}: exponent normalised by the extent of its own frequency vector ({own}·up)",
                         f"factor `{unparse(fac)[:50]}`", mod.line(kn["node"]),
                         fail_detail=f"frequency vector over {own} (`{fc[1]}`) but the exponent is divided by {ext_in_factor}: rows and columns are mixed on non-square arrays")
            # position in the product: row kernel (·, M) multiplies from the left, col kernel (N, ·) from the right
            want_pos = "b" if own == "M" else "a"
            got_pos = "a" if fx is kn["a"] else "b"
            check.decide(want_pos == got_pos, "C13-R1", f"{tag}: kernel orientation matches its side of the matrix product", "", mod.line(kn["node"]),
                         fail_detail=f"the {own} frequency vector is the {'first' if got_pos == 'a' else 'second'} outer operand: the kernel has the wrong orientation")
        mm = [n for n in ast.walk(fn) if isinstance(n, ast.BinOp) and isinstance(n.op, ast.MatMult) and isinstance(n.left, ast.BinOp) and isinstance(n.left.op, ast.MatMult)]
        check.decide(len(mm) == 1, "C13-R1", f"{label}: patch = row kernel @ F @ column kernel", "", mod.line(fn),
                     fail_detail="the small-matrix DFT is not a single K_row @ F @ K_col product")
    check.floor("matrix-DFT kernels", n_k, 4)

    # sign / conjugation: the patch must be the INVERSE transform of the Fourier-domain correlation
    for label, fn, caller, callee in (("numpy", dnp, ccs, "dft_upsample"), ("torch", dto, ups, "dftUpsample_torch")):
        sg = signs.get(callee, set())
        if len(sg) != 1 or None in sg:
            raise AnalysisError(f"{callee}: kernel sign not determined ({sg})")
        sign = next(iter(sg))
        call = [c for c in calls_in(caller) if call_name(c) == callee]
        if len(call) != 1:
            raise AnalysisError(f"{caller.name}: call to {callee} not found")
        arg0 = _resolve(caller, call[0].args[0])
        conj_in = isinstance(arg0, ast.Call) and ((call_name(arg0) or "").split(".")[-1] == "conj")
        takes_real = any(isinstance(n, ast.Return) and ("real" in unparse(n.value)) for n in ast.walk(fn))
        ok = takes_real and ((sign == 1 and not conj_in) or (sign == -1 and conj_in))
        check.decide(ok, "C13-R1", f"{label}: kernel sign and conjugation evaluate the inverse transform of the correlation",
                     f"sign {'+' if sign == 1 else '−'}, input {'conjugated' if conj_in else 'as is'}, real part {'taken' if takes_real else 'not taken'}",
                     mod.line(call[0]),
                     fail_detail=f"kernel exponent sign {'+' if sign == 1 else '−'} with the correlation passed {'conjugated' if conj_in else 'unconjugated'}: "
                                 f"the patch samples the correlation at the mirrored position (c(−x) instead of c(x))")

    # re-centring of the local peak
    if not [d for d in definitions(dnp, "row") if isinstance(d, ast.AST)]:
        raise AnalysisError("dft_upsample: the output-sample vector `row` was not found (the kernel construction is written differently) — the re-centring rule cannot be evaluated")
    row_def = _resolve(dnp, ast.Name(id="row", ctx=ast.Load()))
    sym = "arange(-du, du + 1)" in _norm_index_form(row_def)
    cen = [d for d in definitions(ccs, "center") if isinstance(d, ast.AST)]
    sh = [n for n in ast.walk(ccs) if isinstance(n, ast.Assign) and dotted(n.targets[0]) == "shifts" and "peak" in unparse(n.value)]
    ok = False
    why = ""
    if len(sh) == 1:
        why = unparse(sh[0].value)
        sub = [x for x in ast.walk(sh[0].value) if isinstance(x, ast.BinOp) and isinstance(x.op, ast.Sub) and "peak" in unparse(x.left)]
        if sub:
            c = _resolve(ccs, sub[0].right)
            ctxt = unparse(c)
            ok = sym and ctxt in ("(np.array(local.shape) - 1) // 2", "du", "(local.shape[0] - 1) // 2")
            # n // 2 equals (n − 1) // 2 exactly when n is odd: with the symmetric sample vector arange(−du, du + 1) the patch has 2·du + 1 samples — always odd.
            # (Two sites: a patch whose length can be even AND this spelling of the centre are off by one upsampled sample together; each alone is exact.)
            if not ok and sym and ctxt in ("np.array(local.shape) // 2", "local.shape[0] // 2"):
                ok = True
            why = f"peak − {ctxt}"
    check.decide(ok, "C13-R1", "cross_correlation_shift: the local peak index is re-centred by the patch's own centre index", why, mod.line(sh[0] if sh else ccs),
                 fail_detail=f"{why}: the patch samples offsets −du…+du (centre index du = (len−1)//2); subtracting anything else biases every "
                             f"upsampled estimate (identical images give a non-zero shift)")
    ut = unparse(ups)
    ok = "upsampleCenter = globalShift - upsampleFactor * xyShift" in ut and "xySubShift = xySubShift - globalShift.to(xySubShift.dtype)" in ut
    check.decide(ok, "C13-R1", "upsampled_correlation_torch: the patch offset and the re-centring use the same globalShift", "", mod.line(ups),
                 fail_detail="upsampleCenter / xySubShift are not both formed with globalShift")

    # ---- R2 sign pairing and axis kinds ------------------------------------------------------------------
    cc_np = [d for d in definitions(ccs, "cc") if isinstance(d, ast.AST)]
    cc_t = [d for d in definitions(ali, "cc") if isinstance(d, ast.AST)]
    ok_np = len(cc_np) == 1 and unparse(cc_np[0]) == "F_ref * xp.conj(F_im)"
    ok_t = len(cc_t) == 1 and unparse(cc_t[0]) in ("G1 * G2.conj()", "G1.mul_(G2.conj())", "G1.mul(G2.conj())", "torch.mul(G1, G2.conj())")  # same product; the in-place form reuses G1's storage
    check.decide(ok_np, "C13-R2", "cross_correlation_shift: correlation = F_ref · conj(F_im) (second image conjugated)", "", mod.line(ccs),
                 fail_detail=f"cc = {unparse(cc_np[0]) if cc_np else '?'}")
    check.decide(ok_t, "C13-R2", "align_images_fourier_torch: correlation = G1 · conj(G2) (second image conjugated)", "", mod.line(ali),
                 fail_detail=f"cc = {unparse(cc_t[0]) if cc_t else '?'}")
    ramp = [d for d in definitions(ccs, "phase_ramp") if isinstance(d, ast.AST)]
    ok = len(ramp) == 1 and unparse(ramp[0]) == "xp.exp(-2j * np.pi * (kx * shifts[0] + ky * shifts[1]))"
    app = [d for d in definitions(ccs, "F_im_shifted") if isinstance(d, ast.AST)]
    ok = ok and len(app) == 1 and unparse(app[0]) == "F_im * phase_ramp"
    check.decide(ok, "C13-R2", "cross_correlation_shift: the aligned image is the SECOND image times the negative ramp of the returned shift", "", mod.line(ccs),
                 fail_detail="the aligned image is not F_im · exp(−2πi(kx·s0 + ky·s1)): the convention 'translating the second image by the "
                             "returned shift reproduces the first' is broken")
    kx = [unparse(d) for d in definitions(ccs, "kx") if isinstance(d, ast.AST)]
    ky = [unparse(d) for d in definitions(ccs, "ky") if isinstance(d, ast.AST)]
    ok = kx == ["xp.fft.fftfreq(F_im.shape[0])[:, None]"] and ky == ["xp.fft.fftfreq(F_im.shape[1])[None, :]"]
    check.decide(ok, "C13-R2", "cross_correlation_shift: ramp frequencies are fftfreq of the matching extent, laid along the matching axis", f"{kx} {ky}", mod.line(ccs),
                 fail_detail=f"kx = {kx}, ky = {ky}")
    # kinded-axis analysis of the index arithmetic
    k_np = KAT(ccs, index_axes={"cc": IMG, "cc_real": IMG, "F_im": IMG, "local": IMG}, image_like=("cc_real", "cc", "local")).run()
    k_al = KAT(ali, index_axes={"cc_real": IMG, "cc": IMG}, image_like=("cc_real",)).run()
    k_ct = KAT(cct, index_axes={"im_ref": IMG}, image_like=("im_ref",), seeds={"xy_shift": Pair((ROW, COL))}).run()
    check.assume("align_images_fourier_torch returns the shift as a (row, col) pair (its return is tensor([x0, y0]) with x0 the row index — checked below)")
    n_axis = 0
    for label, k in (("cross_correlation_shift", k_np), ("align_images_fourier_torch", k_al), ("cross_correlation_shift_torch", k_ct)):
        n_axis += 1
        for n, m in k.clashes:
            check.violated("C13-R2", f"{label}: axis clash `{unparse(n)[:60]}`", m + " — row and column bookkeeping is mixed on non-square images", mod.line(n), definite=True)
        if not k.clashes:
            check.holds("C13-R2", f"{label}: indices, wraps and extents stay on their own axis", where=mod.line(k.fn))
    x0, y0 = k_al.env.get("x0"), k_al.env.get("y0")
    if not (isinstance(x0, Comp) and isinstance(y0, Comp)):
        raise AnalysisError(f"align_images_fourier_torch: kinds of x0 / y0 not derivable ({x0}, {y0})")
    check.decide(x0.axis == ROW and y0.axis == COL, "C13-R3", definite=True,
                 construct="align_images_fourier_torch: the flat peak index is unravelled row-major into (row, col)", detail=f"{x0} {y0}", where=mod.line(ali),
                 fail_detail=f"x0 is {x0}, y0 is {y0}")
    rt = [unparse(n.value) for n in ast.walk(ali) if isinstance(n, ast.Return)]
    xy = [unparse(d) for d in definitions(ali, "xy_shift") if isinstance(d, ast.AST)]
    check.decide(rt == ["xy_shift"] and "torch.tensor([x0, y0])" in xy, "C13-R3", "align_images_fourier_torch returns (row shift, col shift)", str(xy), mod.line(ali),
                 fail_detail=f"returns {rt} with xy_shift = {xy}")
    # centred wrap in the torch front end: per axis, with that axis' extent (by role: the shift vector is the local
    # bound to align_images_fourier_torch(…), extents are destructured from / indexed out of im_ref.shape)
    svec = [n.targets[0].id for n in walk_no_nested_defs(cct) if isinstance(n, ast.Assign) and isinstance(n.targets[0], ast.Name)
            and isinstance(n.value, ast.Call) and (call_name(n.value) or "").endswith("align_images_fourier_torch")]
    if len(svec) != 1:
        raise AnalysisError("cross_correlation_shift_torch: the local bound to align_images_fourier_torch(…) was not found")
    ref = func_params(cct)[0]

    def extent_axis(e):
        """axis (0/1) whose extent the expression denotes, None if it is not an extent of the reference image"""
        if isinstance(e, ast.Subscript) and unparse(e.value) == f"{ref}.shape" and isinstance(e.slice, (ast.Constant, ast.UnaryOp)):
            try:
                return int(ast.literal_eval(e.slice)) % 2
            except Exception:
                return None
        if isinstance(e, ast.Name):
            dd = definitions(cct, e.id)
            if len(dd) == 1 and dd[0].__class__.__name__ == "TupleItem" and unparse(dd[0].value) == f"{ref}.shape":
                return dd[0].index
            if len(dd) == 1 and isinstance(dd[0], ast.AST):
                return extent_axis(dd[0])
        return None

    wrapped = {}
    mods = [n for n in walk_no_nested_defs(cct) if isinstance(n, ast.BinOp) and isinstance(n.op, ast.Mod)]
    check.floor("cross_correlation_shift_torch: modulo wraps", len(mods), 1)
    for m in mods:
        ax = extent_axis(m.right)
        if ax is None:
            raise AnalysisError(f"cross_correlation_shift_torch: modulus `{unparse(m.right)}` is not an extent of {ref}")
        comps = set()
        for x in ast.walk(m.left):
            if isinstance(x, ast.Name) and x.id == svec[0]:
                par = getattr(x, "_parent", None)
                if isinstance(par, ast.Subscript) and par.value is x and isinstance(par.slice, ast.Constant) and par.slice.value in (0, 1):
                    comps.add(par.slice.value)
                else:
                    comps |= {0, 1}
        if not comps:
            raise AnalysisError(f"cross_correlation_shift_torch: `{unparse(m)}` wraps no component of {svec[0]}")
        full = getattr(m, "_parent", None)
        E = Rat.sym("E")
        shape_ok = False
        try:
            env = {unparse(x): Rat.sym("s") for x in ast.walk(m.left) if (isinstance(x, ast.Subscript) and unparse(x.value) == svec[0]) or (isinstance(x, ast.Name) and x.id == svec[0])}
            env[unparse(m.right)] = E
            shape_ok = from_ast(m.left, env).equals(Rat.sym("s") + E / Rat.const(2)) and isinstance(full, ast.BinOp) and isinstance(full.op, ast.Sub) \
                and full.left is m and from_ast(full.right, env).equals(E / Rat.const(2))
        except NotArithmetic:
            shape_ok = False
        for c in sorted(comps):
            wrapped.setdefault(c, []).append(ax)
            check.decide(shape_ok and c == ax, "C13-R2", f"cross_correlation_shift_torch: shift component {c} = ((s + n/2) mod n) − n/2 with the extent of its own axis", "", mod.line(m),
                         fail_detail=f"`{unparse(full if isinstance(full, ast.BinOp) else m)}` wraps component {c} with the extent of axis {ax}"
                                     + ("" if shape_ok else " and is not of the form ((s + n/2) mod n) − n/2"))
    check.decide(sorted(wrapped) == [0, 1], "C13-R2", "cross_correlation_shift_torch: both shift components are wrapped into the centred cell", str(wrapped), mod.line(cct),
                 fail_detail=f"components wrapped: {sorted(wrapped)}")
    wr = [n for n in ast.walk(ccs) if isinstance(n, ast.Assign) and dotted(n.targets[0]) == "shifts" and "%" in unparse(n.value)]
    ok = len(wr) == 1 and unparse(wr[0].value) == "(shifts + 0.5 * np.array(cc.shape)) % cc.shape - 0.5 * np.array(cc.shape)"
    check.decide(ok, "C13-R2", "cross_correlation_shift: the result is wrapped into the centred cell per axis (vector of both extents)", "", mod.line(ccs),
                 fail_detail="the final wrap is not (s + shape/2) mod shape − shape/2 with the full shape vector")
    # max_shift mask coordinates (in cross_correlation_shift itself or in the module-level helper that builds the mask)
    mfn, ext_of = ccs, {0: "cc.shape[0]", 1: "cc.shape[1]"}
    zero_st = [n for n in walk_no_nested_defs(ccs) if isinstance(n, ast.Assign) and isinstance(n.targets[0], ast.Subscript) and unparse(n.targets[0].value) == "cc_real"
               and isinstance(n.value, ast.Constant) and n.value.value == 0]
    if len(zero_st) != 1:
        raise AnalysisError("cross_correlation_shift: `cc_real[mask] = 0` not found")
    msel = zero_st[0].targets[0].slice
    mask_name = msel.id if isinstance(msel, ast.Name) else None
    if isinstance(msel, ast.Call) and isinstance(msel.func, ast.Name) and repo.has(f"{IU}:{msel.func.id}"):
        _, mfn = repo.func(f"{IU}:{msel.func.id}")
        check.analysed(f"{IU}:{msel.func.id}")
        hp = func_params(mfn)
        ext_of = {}
        for prm, a_ in zip(hp, msel.args):
            if unparse(a_) == "cc.shape":
                ext_of = {0: f"{prm}[0]", 1: f"{prm}[1]"}
            elif unparse(a_) in ("cc", "cc_real"):
                ext_of = {0: f"{prm}.shape[0]", 1: f"{prm}.shape[1]"}
        if not ext_of:
            raise AnalysisError(f"cross_correlation_shift: mask helper `{unparse(msel)[:60]}` does not receive the correlation shape")
        stores_ = [n for n in ast.walk(mfn) if isinstance(n, (ast.Assign, ast.Return)) and n.value is not None and any(isinstance(x, ast.Compare) for x in ast.walk(n.value))]
        if len(stores_) != 1:
            raise AnalysisError(f"{mfn.name}: mask expression not found")
        mask_expr = stores_[0].value
        ms_name = [prm for prm, a_ in zip(hp, msel.args) if unparse(a_) == "max_shift"]
        ms_name = ms_name[0] if ms_name else None
    else:
        if mask_name is None:
            raise AnalysisError(f"cross_correlation_shift: mask selector `{unparse(msel)[:60]}` not understood")
        md = [d for d in definitions(ccs, mask_name) if isinstance(d, ast.AST)]
        if len(md) != 1:
            raise AnalysisError("cross_correlation_shift: mask definition not found")
        mask_expr, ms_name = md[0], "max_shift"
    # mask = (row coordinate laid along axis 0)² + (column coordinate laid along axis 1)² ≥ max_shift²
    ok_form = isinstance(mask_expr, ast.Compare) and len(mask_expr.ops) == 1 and isinstance(mask_expr.ops[0], (ast.GtE, ast.Gt)) and ms_name is not None \
        and unparse(mask_expr.comparators[0]).replace(" ", "") in (f"{ms_name}**2", f"{ms_name}*{ms_name}")
    terms = []
    if ok_form and isinstance(mask_expr.left, ast.BinOp) and isinstance(mask_expr.left.op, ast.Add):
        for side in (mask_expr.left.left, mask_expr.left.right):
            if isinstance(side, ast.BinOp) and isinstance(side.op, ast.Pow) and is_const(side.right, 2) and isinstance(side.left, ast.Subscript) and isinstance(side.left.value, ast.Name):
                terms.append((side.left.value.id, _broadcast_pos(side.left.slice)))
    check.decide(ok_form and len(terms) == 2 and sorted(t[1] for t in terms) == [0, 1], "C13-R2", "cross_correlation_shift: the mask removes shifts of radius ≥ max_shift", unparse(mask_expr)[:80],
                 mod.line(mask_expr), fail_detail=f"mask = `{unparse(mask_expr)[:90]}` is not (row index)² + (column index)² ≥ max_shift² on the (rows, columns) grid")
    for nm, pos in terms:
        d = [v for v in definitions(mfn, nm) if isinstance(v, ast.AST)]
        if len(d) != 1:
            raise AnalysisError(f"cross_correlation_shift: mask coordinate {nm} not found")
        cls, n_, why = classify_index_vector(d[0])
        if cls is None:
            raise AnalysisError(f"cross_correlation_shift: mask coordinate {nm}: {why}")
        ext = ext_of.get(pos)
        check.decide(cls == "good" and n_ == ext, "C13-R2", f"cross_correlation_shift: max_shift mask coordinate on axis {pos} is the FFT-ordered signed index of that axis' extent",
                     why, mod.line(d[0]),
                     fail_detail=f"`{unparse(d[0])}` (extent {n_}, expected {ext}): {why} — the allowed disc is not centred on zero shift / uses the other axis' extent")
    k_up = KAT(ups, index_axes={"imageCorrUpsample": IMG, "im_up": IMG}, image_like=("imageCorrUpsample", "im_up")).run()
    for n, m in k_up.clashes:
        check.violated("C13-R2", f"upsampled_correlation_torch: axis clash `{unparse(n)[:60]}`", m, mod.line(n), definite=True)
    u0, u1 = k_up.env.get("xySubShift0"), k_up.env.get("xySubShift1")
    if isinstance(u0, Comp) and isinstance(u1, Comp):
        check.decide(u0.axis == ROW and u1.axis == COL, "C13-R3", "upsampled_correlation_torch: the flat peak index is unravelled row-major into (row, col)", f"{u0} {u1}", mod.line(ups),
                     definite=True, fail_detail=f"xySubShift0 is {u0}, xySubShift1 is {u1}")
    _rule_patch_radius(check, mod, (("cross_correlation_shift", ccs), ("dft_upsample", dnp), ("upsampled_correlation_torch", ups), ("dftUpsample_torch", dto)))
    _rule_peak_pipeline(check, mod, ccs, ali, ups, kinds={"cross_correlation_shift": k_np.env, "upsampled_correlation_torch": k_up.env})
    # no cross-call state: a memoised helper must key its cache on every parameter the cached value depends on
    _rule_memo(check, repo, mod)
    # the estimators do not write into their arguments (with fft_input=True the arrays ARE the caller's spectra) and do not couple the dtype of the
    # returned shift to the image dtype
    for label, fn_ in (("cross_correlation_shift", ccs), ("dft_upsample", dnp), ("cross_correlation_shift_torch", cct), ("align_images_fourier_torch", ali), ("upsampled_correlation_torch", ups),
                       ("dftUpsample_torch", dto)):
        params_ = set(func_params(fn_))
        arrayish = {p_ for p_ in params_ if any(isinstance(x, ast.Attribute) and x.attr in ("shape", "real", "imag", "T", "dtype", "device") and isinstance(x.value, ast.Name) and x.value.id == p_
                                                 for x in ast.walk(fn_))
                    or any(isinstance(c, ast.Call) and any(isinstance(a_, ast.Name) and a_.id == p_ for a_ in c.args) and ("fft" in (call_name(c) or "") or (call_name(c) or "").endswith(("conj", "asarray")))
                           for c in ast.walk(fn_))}
        alias = set(arrayish)
        changed = True
        while changed:  # locals that may be the very same array as an array argument
            changed = False
            for st_ in walk_no_nested_defs(fn_):
                if isinstance(st_, ast.Assign) and isinstance(st_.targets[0], ast.Name) and st_.targets[0].id not in alias:
                    v_ = st_.value
                    cands = [v_.body, v_.orelse] if isinstance(v_, ast.IfExp) else [v_]
                    for cnd in cands:
                        while isinstance(cnd, ast.Call) and (call_name(cnd) or "").split(".")[-1] in ("asarray", "asanyarray", "as_tensor") and cnd.args:
                            cnd = cnd.args[0]
                        if isinstance(cnd, ast.Name) and cnd.id in alias:
                            alias.add(st_.targets[0].id)
                            changed = True
        writes_ = []
        for st_ in walk_no_nested_defs(fn_):
            if isinstance(st_, ast.AugAssign) and isinstance(st_.target, ast.Name) and st_.target.id in alias:
                writes_.append(st_)
            tg_ = st_.targets[0] if isinstance(st_, ast.Assign) else (st_.target if isinstance(st_, ast.AugAssign) else None)
            if isinstance(tg_, ast.Subscript) and isinstance(tg_.value, ast.Name) and tg_.value.id in alias:
                writes_.append(st_)
            for c in ast.walk(st_):
                if isinstance(c, ast.Call) and kwarg(c, "out") is not None and isinstance(kwarg(c, "out"), ast.Name) and kwarg(c, "out").id in alias:
                    writes_.append(st_)
                if isinstance(c, ast.Call) and isinstance(c.func, ast.Attribute) and isinstance(c.func.value, ast.Name) and c.func.value.id in alias \
                        and c.func.attr.endswith("_") and not c.func.attr.startswith("_") and isinstance(st_, ast.Expr):
                    writes_.append(st_)
        check.decide(not writes_, "C13-R5", f"{label}: the input arrays are not modified in place", f"array arguments/aliases {sorted(alias)}", mod.line(writes_[0]) if writes_ else mod.line(fn_),
                     fail_detail=f"`{unparse(writes_[0])[:60]}` writes into an array that may be the caller's argument (with fft_input=True the spectrum is passed straight through): registering the same "
                                 f"frame again returns the applied shift minus the earlier one" if writes_ else "")
    for label, fn_ in (("cross_correlation_shift_torch", cct), ("align_images_fourier_torch", ali)):
        imgs_ = set(func_params(fn_)[:2])
        coupled = []
        for r_ in [n for n in walk_no_nested_defs(fn_) if isinstance(n, ast.Return) and n.value is not None]:
            for c in ast.walk(r_.value):
                if isinstance(c, ast.Call) and isinstance(c.func, ast.Attribute) and c.func.attr in ("to", "type_as") and any(isinstance(a_, ast.Name) and a_.id in imgs_ for a_ in c.args):
                    coupled.append(unparse(c)[:60])
                if isinstance(c, ast.Call):
                    dk = kwarg(c, "dtype")
                    if dk is not None and names_in(dk) & imgs_:
                        coupled.append(unparse(c)[:60])
        check.decide(not coupled, "C13-R5", f"{label}: the returned shift does not take its dtype from the images", "", mod.line(fn_),
                     fail_detail=f"{coupled}: integer-count images truncate the sub-pixel shift toward zero ((2.3, −4.7) comes back as (2, −4))")

    # ---- R3 sibling agreement: parabolic refinement -----------------------------------------------------------
    canon = (Rat.sym("v2") - Rat.sym("v0")) / (Rat.const(4) * Rat.sym("v1") - Rat.const(2) * Rat.sym("v2") - Rat.const(2) * Rat.sym("v0"))
    n_par = 0
    _, pp = repo.func(f"{IU}:cross_correlation_shift.parabolic_peak")
    r = [n.value for n in ast.walk(pp) if isinstance(n, ast.Return)]
    try:
        ok = len(r) == 1 and from_ast(r[0], {"v[0]": Rat.sym("v0"), "v[1]": Rat.sym("v1"), "v[2]": Rat.sym("v2")}).equals(canon)
    except NotArithmetic:
        ok = False
    n_par += 1
    check.decide(ok, "C13-R3", "parabolic_peak(v) = (v2 − v0) / (4v1 − 2v2 − 2v0)", "", mod.line(pp), fail_detail="the numpy parabolic refinement deviates")
    for comp, v in (("dx", "vx"), ("dy", "vy")):
        d = [x for x in definitions(ali, comp) if isinstance(x, ast.AST)]
        den = [x for x in definitions(ali, f"denom_{comp[1]}") if isinstance(x, ast.AST)]
        ok = False
        if d and den:
            e = d[0].body if isinstance(d[0], ast.IfExp) else d[0]
            try:
                env = {f"{v}[0]": Rat.sym("v0"), f"{v}[1]": Rat.sym("v1"), f"{v}[2]": Rat.sym("v2")}
                env[f"denom_{comp[1]}"] = from_ast(den[0], env)
                ok = from_ast(e, env).equals(canon)
            except NotArithmetic:
                ok = False
        n_par += 1
        check.decide(ok, "C13-R3", f"align_images_fourier_torch: {comp} is the same parabolic formula on {v}", "", mod.line(ali),
                     fail_detail=f"{comp} deviates from (v2 − v0)/(4v1 − 2v2 − 2v0)")
    for comp, idx in (("dx", ("icc[0, 1]", "icc[1, 1]", "icc[2, 1]")), ("dy", ("icc[1, 0]", "icc[1, 1]", "icc[1, 2]"))):
        d = [x for x in definitions(ups, comp) if isinstance(x, ast.AST) and isinstance(x, ast.BinOp)]
        ok = False
        if d:
            try:
                ok = from_ast(d[0], {idx[0]: Rat.sym("v0"), idx[1]: Rat.sym("v1"), idx[2]: Rat.sym("v2")}).equals(canon)
            except NotArithmetic:
                ok = False
        n_par += 1
        check.decide(ok, "C13-R3", f"upsampled_correlation_torch: {comp} is the parabolic formula along its own axis of the 3×3 patch", "", mod.line(ups),
                     fail_detail=f"{comp} deviates (formula or row/column of the patch)")
    sub = {unparse(n.targets[0]): unparse(n.value) for n in ast.walk(ccs) if isinstance(n, ast.Assign) and dotted(n.targets[0]) in ("dxf", "dyf") and isinstance(n.value, ast.Call)}
    check.decide(sub == {"dxf": "parabolic_peak(icc[:, 1])", "dyf": "parabolic_peak(icc[1, :])"}, "C13-R3",
                 "cross_correlation_shift: sub-sample refinement uses the centre column for rows and the centre row for columns", str(sub), mod.line(ccs),
                 fail_detail=f"{sub}")
    check.floor("parabolic refinements compared", n_par, 5)
    # the three samples of each coarse refinement are the peak's PERIODIC neighbours (the correlation is circular: a peak on row/column 0 or n−1 — the
    # zero-shift case — has its neighbour on the other side)
    prof = [c.args[0] for c in calls_in(ccs) if call_name(c) == "parabolic_peak" and c.args and isinstance(c.args[0], ast.Name)]
    n_prof = 0
    for pv in prof:
        dd = [d for d in definitions(ccs, pv.id) if isinstance(d, ast.AST)]
        if len(dd) != 1:
            continue
        d0 = dd[0]
        wraps_ok, why_ = None, unparse(d0)[:70]
        if isinstance(d0, ast.Call) and (call_name(d0) or "").split(".")[-1] == "take":
            md = kwarg(d0, "mode")
            wraps_ok = md is not None and is_const(md, "wrap")
            why_ = f"take(mode={unparse(md) if md is not None else 'raise (default)'})"
        elif isinstance(d0, ast.Subscript) and isinstance(d0.slice, ast.Tuple):
            vecs = [e for e in d0.slice.elts if isinstance(e, ast.Name) and any(isinstance(x, ast.AST) and any(isinstance(y, ast.Call) and (call_name(y) or "").endswith("arange") for y in ast.walk(x))
                                                                                  for x in definitions(ccs, e.id))]
            if len(vecs) == 1:
                idef = [x for x in definitions(ccs, vecs[0].id) if isinstance(x, ast.AST)][0]
                wraps_ok = any((isinstance(y, ast.Call) and (call_name(y) or "").split(".")[-1] in ("mod", "remainder")) or (isinstance(y, ast.BinOp) and isinstance(y.op, ast.Mod)) for y in ast.walk(idef))
                why_ = f"{vecs[0].id} = {unparse(idef)[:60]}"
            elif not vecs:
                continue  # a slice of the upsampled 3×3 patch (icc[:, 1]) — interior by construction
        if wraps_ok is None:
            continue
        n_prof += 1
        check.decide(wraps_ok, "C13-R3", f"cross_correlation_shift: the neighbours `{pv.id}` of the coarse peak are taken periodically (index mod extent)", why_, mod.line(d0),
                     fail_detail=f"{why_}: neighbour indices are clipped / not wrapped at the border — for identical images (peak at 0, 0) the parabola sees the peak value twice and the shift is "
                                 f"biased by ±0.5 px")
    check.floor("coarse-peak neighbour profiles", n_prof, 2)

    # ---- R4 every returned aligned image passes the output-domain dispatch --------------------------------------------
    rets = [n for n in walk_no_nested_defs(ccs) if isinstance(n, ast.Return) and isinstance(n.value, ast.Tuple) and len(n.value.elts) == 2]
    check.floor("returns of (shift, image)", len(rets), 1)
    disp = None
    for n in ast.walk(ccs):
        if isinstance(n, ast.If) and unparse(n.test) in ("fft_output", "not fft_output"):
            disp = n
    if disp is None:
        raise AnalysisError("cross_correlation_shift: output-domain dispatch not found")
    dispatched = {t.id for s in disp.body + disp.orelse if isinstance(s, ast.Assign) for t in s.targets if isinstance(t, ast.Name)}
    for i, rn in enumerate(rets):
        img = rn.value.elts[1]
        ok = isinstance(img, ast.Name) and img.id in dispatched
        check.decide(ok, "C13-R4", f"cross_correlation_shift: return #{i + 1} hands back the image produced by the fft_output dispatch", unparse(rn.value), mod.line(rn),
                     fail_detail=f"`return {unparse(rn.value)}` bypasses the output-domain dispatch: with fft_input ≠ fft_output the caller receives "
                                 f"the image in the wrong domain")
    arms = {unparse(s.value) for s in disp.body + disp.orelse if isinstance(s, ast.Assign)}
    check.decide(arms == {"F_im_shifted", "xp.real(xp.fft.ifft2(F_im_shifted))"}, "C13-R4", "cross_correlation_shift: Fourier output = shifted spectrum, real output = its inverse transform",
                 str(arms), mod.line(disp), fail_detail=f"dispatch arms are {arms}")
    fin = {k: [unparse(d) for d in definitions(ccs, k) if isinstance(d, ast.AST)] for k in ("F_ref", "F_im")}
    check.decide(fin == {"F_ref": ["im_ref if fft_input else xp.fft.fft2(im_ref)"], "F_im": ["im if fft_input else xp.fft.fft2(im)"]}, "C13-R4",
                 "cross_correlation_shift: inputs are transformed iff they are not already spectra", "", mod.line(ccs), fail_detail=str(fin))


MANIFEST = {
    "text": "Decides the convention clauses that are visible in the code for all shapes: each matrix-DFT kernel pairs the pure "
            "FFT-ordered frequency vector of extent K (correct for both parities, table of idioms) with exponent 2π/(K·up), "
            "carries the patch offset on the output-sample operand, has the orientation of its side of K_row @ F @ K_col and a "
            "sign/conjugation that evaluates the inverse transform; the local peak is re-centred by the patch's own centre; "
            "row/column indices, neighbour wraps, flat-index unravelling and centred wraps never cross axes (kinded-axis "
            "analysis) in the numpy and torch estimators; the second image is conjugated and receives the negative ramp; the "
            "max_shift mask uses FFT-ordered signed indices; all six parabolic refinements are one rational function; every "
            "return of the aligned image passes the fft_output dispatch.",
    "note": "Not decided: accuracy bounds (1/upsample_factor), uniqueness of the correlation peak, behaviour at exactly half the "
            "period. The idiom table for centred index vectors is closed: an unknown spelling is an analysis error, not a verdict.",
    "technique": "kinded-axis abstract interpretation + idiom table for centred index vectors + rational normal forms (AST)",
}
MANIFEST["text"] += ' Also: memoised helpers key their cache on every parameter the cached value depends on and no helper accumulates module-level state (R5); kinded-axis analysis covers 1-D profiles: an offset estimated from samples along one axis never corrects a position on the other axis.'
MANIFEST["text"] += ' R6 (peak pipeline): peak selection is an arg-maximum; the coarse refinement samples are the −1/0/+1 neighbours in this order, wrapped by a modulo whose first operand is base+offset; the 3×3 patch is [p−1, p+2) on both axes with the row index on axis 0; each coordinate adds the parabolic offset measured along its own axis; the upsampled estimate is coarse + (local peak − centre + δ)/up in both twins — all decided on rational normal forms, so algebraic re-spelling does not matter.'
MANIFEST["text"] += " R7: the upsampled patch half-width 1.5·up is rounded with ceil in every routine that builds the patch or re-centres a peak in it (int / floor / round / // differ by one sample for odd factors)."
MANIFEST["text"] += ' R5 skips private helpers nothing references.'
MANIFEST["text"] += ' R1/R2 accept the equivalent spellings n//2 (provably odd patch) and the in-place product.'
