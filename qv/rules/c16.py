"""C16 — forward-model operator identities: unit modulus, isometry chains, adjoint pairing,
projection typestate, ramp sign/linearity/units (E5, E6 targeted forms, E7, E8)."""
from __future__ import annotations

import ast
from fractions import Fraction
from typing import Optional

from ..core.repo import (AnalysisError, Repo, call_name, calls_in, definitions, dotted, func_params, is_const,
                         kwarg, names_in, unparse, walk_no_nested_defs)
from ..domains.algnf import NotArithmetic, Poly, Rat, from_ast
from ..domains.kat import COL, ROW, Comp, Ext, KAT, Pair, Seq

PU = "quantem.diffractive_imaging.ptycho_utils"
PB = "quantem.diffractive_imaging.ptychography_base"
PT = "quantem.diffractive_imaging.ptychography"
PM = "quantem.diffractive_imaging.probe_models"
OMD = "quantem.diffractive_imaging.object_models"
DET = "quantem.diffractive_imaging.detector_models"
DU = "quantem.diffractive_imaging.direct_ptycho_utils"
IU = "quantem.core.utils.imaging_utils"
TC = "quantem.tomography.tomography_conv"

EXPLANATION = (
    "operator identities reduced to their visible structure: every propagator/ramp/phase factor is "
    "exp of (one imaginary unit × real factors) — unit modulus for all inputs; forward/inverse FFT "
    "pairs share one normalisation and the detector uses the same unitary FFT as the amplitude "
    "estimators; patch scatter is an additive index_add over the flattening the gather uses; the "
    "measured (detector-centred) amplitudes reach the Fourier projection through exactly one inverse "
    "shift and are multiplied by a unit-modulus phase only; all translation ramps share one sign, "
    "are homogeneous-linear in the shift (propagators in dz) and pair each frequency vector with the "
    "shift and extent of its own axis"
)

REAL_CALLS = {"torch.tan", "torch.angle", "np.angle", "torch.abs", "torch.cos", "torch.sin", "math.tan", "float",
              "torch.tensor", "torch.as_tensor", "electron_wavelength_angstrom", "torch.fft.fftfreq", "np.fft.fftfreq",
              "torch.zeros", "torch.ones", "af.match_device", "xp.asarray", "np.arange", "torch.arange"}


class ExpArg:
    """Normal form of the argument of a complex exponential: a polynomial over I (imaginary unit),
    pi and opaque real atoms."""

    def __init__(self, fn: ast.AST, arg: ast.AST, real_names: set[str], opaque_ok: bool = True):
        self.fn = fn
        self.real_names = real_names
        self.unknown: list[str] = []
        self.poly = self._ev(arg, 0)

    def _ev(self, e: ast.AST, depth: int) -> Rat:
        if isinstance(e, ast.Constant):
            if isinstance(e.value, complex):
                if e.value.real != 0:
                    self.unknown.append(unparse(e))
                return Rat.const(Fraction(str(e.value.imag))) * Rat.sym("I")
            if isinstance(e.value, (int, float)) and not isinstance(e.value, bool):
                return Rat.const(Fraction(str(e.value)))
        if isinstance(e, ast.UnaryOp) and isinstance(e.op, ast.USub):
            return -self._ev(e.operand, depth)
        if isinstance(e, ast.BinOp) and isinstance(e.op, (ast.Add, ast.Sub, ast.Mult, ast.Div)):
            l, r = self._ev(e.left, depth), self._ev(e.right, depth)
            return {ast.Add: l.__add__, ast.Sub: l.__sub__, ast.Mult: l.__mul__, ast.Div: l.__truediv__}[type(e.op)](r)
        if isinstance(e, ast.BinOp) and isinstance(e.op, ast.Pow) and isinstance(e.right, ast.Constant) and isinstance(e.right.value, int):
            b, out = self._ev(e.left, depth), Rat.const(1)
            for _ in range(e.right.value):
                out = out * b
            return out
        d = dotted(e)
        if d in ("np.pi", "torch.pi", "math.pi", "xp.pi", "pi"):
            return Rat.sym("pi")
        if isinstance(e, ast.Name) and depth < 6:
            dd = [x for x in definitions(self.fn, e.id) if isinstance(x, ast.AST)]
            if len(dd) == 1 and not isinstance(dd[0], (ast.Call, ast.Subscript)) and e.id not in self.real_names:
                return self._ev(dd[0], depth + 1)
            if len(dd) == 1 and isinstance(dd[0], (ast.Call, ast.Subscript)) and e.id not in self.real_names:
                return self._ev(dd[0], depth + 1)
        if isinstance(e, ast.Subscript):
            # indexing / broadcasting keeps the value kind
            inner = self._ev(e.value, depth)
            if inner.symbols() & {"I"}:
                return inner
            syms = inner.symbols()
            if len(syms) == 1 and len(inner.n.t) == 1 and not inner.d.symbols():
                # an indexed real atom keeps the atom's identity (role), whatever the local is called
                return Rat.sym(f"⟨{next(iter(syms))}[{unparse(e.slice)}]⟩")
            return Rat.sym(f"⟨{unparse(e)}⟩")
        if isinstance(e, ast.Call):
            cn = call_name(e) or ""
            if isinstance(e.func, ast.Attribute) and e.func.attr in ("to", "unsqueeze", "view", "reshape", "astype", "float", "squeeze", "expand") \
                    and not cn.startswith(("torch.", "np.")):
                return self._ev(e.func.value, depth)
            if cn in REAL_CALLS or cn.split(".")[-1] in ("tan", "angle", "fftfreq", "abs"):
                return Rat.sym(f"⟨{unparse(e)[:40]}⟩")
            self.unknown.append(unparse(e)[:50])
            return Rat.sym(f"⟨{unparse(e)[:40]}⟩")
        if isinstance(e, (ast.Name, ast.Attribute)):
            nm = d or unparse(e)
            if isinstance(e, ast.Name) and e.id not in self.real_names and not definitions(self.fn, e.id):
                # a parameter: real by role table or unknown
                self.unknown.append(e.id)
            return Rat.sym(nm)
        self.unknown.append(unparse(e)[:50])
        return Rat.sym(f"⟨{unparse(e)[:40]}⟩")

    def imag_degrees(self) -> set[int]:
        degs = set()
        for mono in self.poly.n.t:
            degs.add(dict(mono).get("I", 0))
        return degs

    def is_pure_imaginary(self) -> bool:
        return self.imag_degrees() <= {1} and bool(self.poly.n.t) and not (self.poly.d.symbols() & {"I"})

    def sign(self) -> Optional[int]:
        signs = {1 if c > 0 else -1 for c in self.poly.n.t.values()}
        dsig = {1 if c > 0 else -1 for c in self.poly.d.t.values()}
        if len(signs) == 1 and len(dsig) == 1:
            return next(iter(signs)) * next(iter(dsig))
        return None

    def degree_in(self, names: set[str]) -> set[int]:
        import re
        pats = [re.compile(r"(?<![A-Za-z0-9_])" + re.escape(n) + r"(?![A-Za-z0-9_])") for n in names]
        out = set()
        for mono in self.poly.n.t:
            out.add(sum(e for s, e in mono if any(p.search(s) for p in pats)))
        return out


def _exp_calls(fn: ast.AST):
    return [c for c in ast.walk(fn) if isinstance(c, ast.Call) and (call_name(c) or "").split(".")[-1] == "exp" and c.args]


def _norm_of(call: ast.Call) -> str:
    n = kwarg(call, "norm")
    return unparse(n) if n is not None else "None"


def _frame_events(repo: Repo):
    """Centring typestate of fourier_projection (flow-sensitive, per branch), with estimate_amplitudes summarised for exactly the option values its callers pass."""
    from ..domains.frames import CENTRED, CORNER, Frames
    tm, fp = repo.func(f"{PT}:Ptychography.fourier_projection")
    _, est = repo.func(f"{PB}:PtychographyBase.estimate_amplitudes")
    from ..core.repo import param_default
    summaries = {}

    def call_frame(c: ast.Call):
        if not (call_name(c) or "").endswith("estimate_amplitudes"):
            return None
        opt = kwarg(c, "corner_centered") or (c.args[1] if len(c.args) > 1 else None) or param_default(est, "corner_centered")
        if not isinstance(opt, ast.Constant):
            return None
        key = bool(opt.value)
        if key not in summaries:
            fr = Frames(est, {}, consts={"corner_centered": key}).run()
            summaries[key] = (fr.returns, fr.events)
        rets = summaries[key][0]
        return rets[0] if len(rets) == 1 else None
    params = [a.arg for a in fp.args.args]
    fr = Frames(fp, {params[1]: CENTRED}, call_frame=call_frame).run()
    return tm, fp, est, fr, summaries


def _rule_shift_pairing(check, repo: Repo) -> None:
    """R9: fftshift and ifftshift are inverse to each other; fftshift∘fftshift is the identity only on even-length axes.  Decided by the centring typestate
    (qv/domains/frames.py): every shift is applied to a value in the frame it expects, on every branch separately."""
    tm, fp, est, fr, summaries = _frame_events(repo)
    n = 0
    for node, kind, ok, detail in fr.events:
        if kind != "shift":
            continue
        n += 1
        check.decide(ok, "C16-R9", f"fourier_projection: `{unparse(node)[:50]}` is applied to a value in the frame it expects", detail, tm.line(node), definite=True,
                     fail_detail=f"{detail}: s∘s is the identity only on even-length axes — for an odd detector dimension the spectrum stays rolled by one pixel, the projected wave "
                                 f"does not carry the measured amplitudes and the projection is not idempotent")
    check.extra["shift_chains"] = n


def _rule_frequency_dtype(check, repo: Repo) -> None:
    """R10: the frequency grid of the translation operator (fftfreq values in [−0.5, 0.5)) is never converted to the dtype of the SHIFT vectors: for integer-typed
    positions (whole-pixel shifts) every frequency truncates to 0, the ramp is all ones and the translation silently returns its input."""
    PU = "quantem.diffractive_imaging.ptycho_utils"
    umod, fto = repo.func(f"{PU}:fourier_translation_operator")
    ps = func_params(fto)
    pos = ps[0] if ps else "positions"
    n = 0
    for c in calls_in(fto):
        cn = call_name(c) or ""
        dts = [a for a in list(c.args) + [k.value for k in c.keywords] if isinstance(a, ast.Attribute) and a.attr == "dtype" and dotted(a.value) == pos]
        if not dts:
            continue
        # what is being converted: the receiver (x.to / x.astype / x.type) or the first argument (as_type(x, dt), np.asarray(x, dtype=dt) …)
        subj = c.func.value if isinstance(c.func, ast.Attribute) and c.func.attr in ("to", "astype", "type") and not cn.startswith(("af.", "np.", "torch.", "xp.")) else (c.args[0] if c.args else None)
        if subj is None:
            continue
        seen, todo, is_freq = set(), [subj], False
        while todo:
            e_ = todo.pop()
            for x in ast.walk(e_):
                if isinstance(x, ast.Call) and (call_name(x) or "").split(".")[-1] in ("fftfreq", "rfftfreq"):
                    is_freq = True
                if isinstance(x, ast.Name) and x.id not in seen:
                    seen.add(x.id)
                    todo.extend(d for d in definitions(fto, x.id) if isinstance(d, ast.AST) and d is not c)
        if not is_freq:
            continue
        n += 1
        check.violated("C16-R10", "fourier_translation_operator: the frequency grid keeps a floating dtype (never the dtype of the shift vectors)",
                       f"`{unparse(c)[:70]}` converts fftfreq values to `{pos}.dtype`: for integer-typed {pos} they truncate to 0 — the ramp is identically 1, an integer shift "
                       f"is no longer a circular roll and shifts no longer compose", umod.line(c), definite=True)
    if n == 0:
        check.holds("C16-R10", "fourier_translation_operator: the frequency grid keeps a floating dtype (never the dtype of the shift vectors)", where=umod.line(fto))
    # positive example (the expected count on the unchanged tree is zero)
    probe = ast.parse("def f(positions, shape):\n    k = np.fft.fftfreq(4)\n    k = af.as_type(k, positions.dtype)\n    return k\n").body[0]
    hit = [c for c in calls_in(probe) if any(isinstance(a, ast.Attribute) and a.attr == "dtype" and dotted(a.value) == "positions" for a in c.args)]
    if len(hit) != 1:
        raise AnalysisError("C16-R10 self-test: the conversion recogniser does not match its positive example")


def _rule_back_propagation(check, repo: Repo) -> None:
    """R8: the analytical back-propagation applies the ELEMENT-WISE conjugate of the forward kernel.  The propagator is a multiplier in Fourier
    space (a diagonal operator): its adjoint — and, being unit-modulus, its inverse — is conj(kernel).  `.adjoint()` / `.mH` / `.H` are the conjugate
    TRANSPOSE of the 2-D array, a different kernel whenever the array is not symmetric (tilted illumination, anisotropic sampling)."""
    omod, bw = repo.func(f"{OMD}:ObjectPixelated.backward")
    check.analysed(f"{OMD}:ObjectPixelated.backward")
    ELEMENTWISE = {"conj", "conj_physical", "conjugate"}
    TRANSPOSING = {"adjoint", "mH", "H", "T", "mT", "transpose", "t", "permute"}
    n = 0
    for c in calls_in(bw):
        if not ((call_name(c) or "").endswith("_propagate_array") and len(c.args) >= 2):
            continue
        n += 1
        k = c.args[1]
        ops = []
        x = k
        while True:
            if isinstance(x, ast.Call) and isinstance(x.func, ast.Attribute) and (x.func.attr in ELEMENTWISE | TRANSPOSING) and not (call_name(x) or "").startswith(("torch.", "np.")):
                ops.append(x.func.attr)
                x = x.func.value
            elif isinstance(x, ast.Call) and (call_name(x) or "").split(".")[-1] in ELEMENTWISE | TRANSPOSING and x.args:
                ops.append((call_name(x) or "").split(".")[-1])
                x = x.args[0]
            elif isinstance(x, ast.Attribute) and x.attr in TRANSPOSING:
                ops.append(x.attr)
                x = x.value
            else:
                break
        if "propagators" not in unparse(x):
            raise AnalysisError(f"ObjectPixelated.backward: kernel `{unparse(k)[:60]}` of the back-propagation is not derived from `propagators`")
        n_conj = sum(1 for o in ops if o in ELEMENTWISE | {"adjoint", "mH", "H"})
        transposed = sum(1 for o in ops if o in TRANSPOSING) % 2 == 1
        check.decide(n_conj % 2 == 1 and not transposed, "C16-R8", "ObjectPixelated.backward: the back-propagation kernel is the element-wise conjugate of the forward kernel",
                     unparse(k)[:60], omod.line(c), definite=True,
                     fail_detail=f"`{unparse(k)[:60]}` " + ("transposes the kernel array: for a non-symmetric kernel (unequal tilts, anisotropic sampling) propagating by +dz and back is no longer "
                                                            "the identity and the gradient is not the adjoint of the forward operator" if transposed else
                                                            "is not conjugated: the back-propagation applies the forward kernel again"))
    check.floor("back-propagation sites", n, 1)


def run(check, repo: Repo) -> None:
    propagator_rules(check, repo)
    _rule_back_propagation(check, repo)
    _rule_shift_pairing(check, repo)
    _rule_frequency_dtype(check, repo)
    _run_rest(check, repo)


def propagator_rules(check, repo: Repo) -> None:
    """R1/R6/R7 on ProbeBase._compute_propagator_arrays (also borrowed by C02: the multislice forward model)."""
    # ---- R1 unit-modulus propagators ----------------------------------------------------------------
    pmod, prop = repo.func(f"{PM}:ProbeBase._compute_propagator_arrays")
    check.analysed(f"{PM}:ProbeBase._compute_propagator_arrays")
    real = {"slice_thicknesses", "sampling"} & set(func_params(prop))
    exps = _exp_calls(prop)
    check.floor("propagator exponentials", len(exps), 3)
    check.assume("slice thicknesses, tilts, wavelength and fftfreq grids are real-valued (role table); dz/k2 carry a complex dtype but real values")
    for c in exps:
        ea = ExpArg(prop, c.args[0], real)
        if ea.unknown:
            raise AnalysisError(f"_compute_propagator_arrays: factors {ea.unknown} of `{unparse(c)[:50]}` not in the real-role table")
        check.decide(ea.is_pure_imaginary(), "C16-R1", f"_compute_propagator_arrays: `{unparse(c)[:45]}` is exp(i·real) — unit modulus",
                     f"powers of i per term: {sorted(ea.imag_degrees())}", pmod.line(c), definite=True,
                     fail_detail=f"the exponent `{unparse(c.args[0])[:60]}` resolves to terms with {sorted(ea.imag_degrees())} factors of i "
                                 f"(needs exactly one): the kernel is not unit-modulus, propagation does not conserve intensity and "
                                 f"conj(propagator) is not its inverse")
        deg = ea.degree_in({"slice_thicknesses"})
        check.decide(deg == {1}, "C16-R6", f"_compute_propagator_arrays: exponent of `{unparse(c)[:40]}` is homogeneous-linear in the slice thickness",
                     f"degree in slice_thicknesses: {sorted(deg)}", pmod.line(c),
                     fail_detail=f"degree in slice_thicknesses is {sorted(deg)}: P(dz)·P(−dz) ≠ 1")
    # the returned propagators are the product of those exponentials only
    mults = [n for n in walk_no_nested_defs(prop) if isinstance(n, ast.Assign) and dotted(n.targets[0]) == "propagators"]
    ok = all(isinstance(n.value, ast.Call) and (call_name(n.value) or "").split(".")[-1] in ("exp", "empty") or
             (isinstance(n.value, ast.BinOp) and isinstance(n.value.op, ast.Mult) and unparse(n.value.left) == "propagators"
              and isinstance(n.value.right, ast.Call) and (call_name(n.value.right) or "").endswith("exp")) for n in mults)
    check.decide(ok, "C16-R1", "_compute_propagator_arrays: the kernel is a product of unit-modulus exponentials only", "", pmod.line(prop),
                 fail_detail="the propagators receive a factor that is not one of the exponentials")
    # frequency vectors by role: the locals bound to fftfreq(extent, sampling) of axis 0 / axis 1
    ok, why, fnames = _freq_axes(prop)
    if ok is None:
        raise AnalysisError(f"_compute_propagator_arrays: frequency grid construction not recognised: {why}")
    check.decide(ok, "C16-R7", "_compute_propagator_arrays: each frequency vector uses the extent and sampling of its own axis", why, pmod.line(prop),
                 fail_detail=f"{why}: anisotropic sampling (e.g. a non-square ROI) reaches the wrong axis and the Fresnel kernel is distorted")
    # every broadcast use of a frequency vector puts it on its own axis (second-to-last = rows, last = columns)
    uses = 0
    for n in walk_no_nested_defs(prop):
        if isinstance(n, ast.Subscript) and isinstance(n.value, ast.Name) and n.value.id in fnames:
            pos = _broadcast_axis(n.slice)
            if pos is None:
                continue
            uses += 1
            check.decide(pos == fnames[n.value.id] - 2, "C16-R7",
                         f"_compute_propagator_arrays: `{unparse(n)}` broadcasts the axis-{fnames[n.value.id]} frequencies along axis {fnames[n.value.id]}", "", pmod.line(n),
                         fail_detail=f"`{unparse(n)}` lays the axis-{fnames[n.value.id]} frequency vector along the other axis")
    check.floor("broadcast uses of the frequency vectors", uses, 4)
    # tilt terms pair the tilt component of an axis with the frequency vector of the same axis
    tilt = _tilt_components(prop)
    for stmt in mults:
        if not isinstance(stmt.value, ast.BinOp):
            continue
        e = stmt.value.right.args[0]
        used_f = {x.id for x in ast.walk(e) if isinstance(x, ast.Name) and x.id in fnames}
        used_t = set()
        for x in ast.walk(_resolve_names(prop, e)):
            if isinstance(x, ast.Name) and x.id in tilt:
                used_t.add(tilt[x.id])
        t = unparse(stmt.value.right)
        if len(used_f) != 1 or len(used_t) != 1:
            raise AnalysisError(f"_compute_propagator_arrays: tilt ramp `{t[:60]}` not recognised (frequency vectors {sorted(used_f)}, tilt components {sorted(used_t)})")
        fa = fnames[next(iter(used_f))]
        check.decide(fa == next(iter(used_t)), "C16-R7", f"_compute_propagator_arrays: tilt ramp `{t[:40]}` pairs its tilt with the frequency vector of the same direction", "", pmod.line(stmt),
                     fail_detail=f"`{t}` multiplies the axis-{next(iter(used_t))} tilt with the axis-{fa} frequencies")



def _run_rest(check, repo: Repo) -> None:
    # ---- R2 isometry chains -----------------------------------------------------------------------------
    sites = []
    for q in (f"{PB}:PtychographyBase._propagate_array", f"{OMD}:ObjectBase._propagate_array", f"{PU}:fourier_shift_expand",
              f"{PU}:shift_array", f"{DU}:_fourier_shift_stack"):
        if not repo.has(q):
            continue
        m, fn = repo.func(q)
        check.analysed(q)
        f = [c for c in calls_in(fn) if (call_name(c) or "").split(".")[-1] == "fft2"]
        i = [c for c in calls_in(fn) if (call_name(c) or "").split(".")[-1] == "ifft2"]
        if len(f) != 1 or len(i) != 1:
            raise AnalysisError(f"{q}: expected one fft2 and one ifft2")
        sites.append(q)
        check.decide(_norm_of(f[0]) == _norm_of(i[0]), "C16-R2", f"{q.split(':')[1]}: fft2 and ifft2 use the same normalisation (round trip = identity)",
                     f"{_norm_of(f[0])} / {_norm_of(i[0])}", m.line(f[0]),
                     fail_detail=f"fft2(norm={_norm_of(f[0])}) … ifft2(norm={_norm_of(i[0])}): the pair rescales the array, total intensity is not preserved")
        # only multiplication by the ramp/propagator between them
        inner = i[0].args[0] if i[0].args else None
        chain_ok = inner is not None and any(x is f[0] for x in ast.walk(_resolve_names(fn, inner)))
        check.decide(chain_ok, "C16-R2", f"{q.split(':')[1]}: the inverse transform acts on (forward transform × kernel)", "", m.line(i[0]),
                     fail_detail="ifft2 is not applied to the product of fft2(array) with the kernel")
    check.floor("fft2/ifft2 chains", len(sites), 4)
    # unitary detector, agreeing with every amplitude/intensity estimator
    norm_sites = {}
    for q in (f"{DET}:DetectorPixelated.forward", f"{PB}:PtychographyBase.estimate_amplitudes", f"{PB}:PtychographyBase.estimate_intensities",
              f"{PT}:Ptychography.fourier_projection", f"{PM}:ProbePixelated._apply_weights"):
        m, fn = repo.func(q)
        check.analysed(q)
        for c in calls_in(fn):
            if (call_name(c) or "").split(".")[-1] in ("fft2", "ifft2"):
                norm_sites[f"{q.split(':')[1]}:{(call_name(c) or '').split('.')[-1]}"] = (_norm_of(c), m.line(c))
    check.floor("detector-plane FFT sites", len(norm_sites), 6)
    vals = {v[0] for v in norm_sites.values()}
    for site, (nv, where) in norm_sites.items():
        check.decide(nv == "'ortho'", "C16-R2", f"{site}: the detector-plane transform is the unitary FFT", nv, where,
                     fail_detail=f"norm={nv} while the other detector-plane transforms use {sorted(vals - {nv}) or vals}: Parseval no longer holds pattern by "
                                 f"pattern (summed diffraction intensity ≠ probe intensity) and predictions disagree with the estimators")
    dm, det = repo.func(f"{DET}:DetectorPixelated.forward")
    it = [d for d in definitions(det, "intensities") if isinstance(d, ast.AST)]
    ok = len(it) == 1 and unparse(it[0]) == "torch.sum(torch.abs(exit_fft) ** 2, dim=0)"
    check.decide(ok, "C16-R2", "DetectorPixelated.forward: intensity = Σ_modes |FFT|² with no further scaling", unparse(it[0]) if it else "", dm.line(det),
                 fail_detail=f"intensities = `{unparse(it[0]) if it else '?'}`: an extra scale breaks Σ intensity = probe intensity")

    # ---- R3 adjoint pairing ---------------------------------------------------------------------------------
    um, spb = repo.func(f"{PU}:sum_patches_base")
    _, sp = repo.func(f"{PU}:sum_patches")
    om, gop = repo.func(f"{OMD}:ObjectBase._get_obj_patches")
    check.analysed(f"{PU}:sum_patches_base", f"{PU}:sum_patches", f"{OMD}:ObjectBase._get_obj_patches")
    ia = [c for c in calls_in(spb) if isinstance(c.func, ast.Attribute) and c.func.attr in ("index_add_", "index_add", "scatter_add_", "index_put_", "put_", "scatter_")]
    asg = [n for n in ast.walk(spb) if isinstance(n, ast.Assign) and isinstance(n.targets[0], ast.Subscript) and "indices" in unparse(n.targets[0].slice)]
    additive = len(ia) == 1 and ia[0].func.attr in ("index_add_", "index_add", "scatter_add_") and not asg
    if ia and ia[0].func.attr == "index_put_":
        additive = is_const(kwarg(ia[0], "accumulate"), True)
    check.decide(additive, "C16-R3", "sum_patches_base scatters ADDITIVELY (repeated indices accumulate)", unparse(ia[0])[:60] if ia else "", um.line(spb),
                 fail_detail="patches are written with an assignment-style scatter: repeated / overlapping indices overwrite each other, so the "
                             "scatter is not the adjoint of the gather")
    fw = [unparse(d) for d in definitions(spb, "flat_weights") if isinstance(d, ast.AST)]
    fi = [unparse(d) for d in definitions(spb, "flat_indices") if isinstance(d, ast.AST)]
    args = [unparse(a) for a in ia[0].args] if ia else []
    ok = fw == ["patches.reshape(-1)"] and fi == ["indices.reshape(-1)"] and args == ["0", "flat_indices", "flat_weights"]
    check.decide(ok, "C16-R3", "sum_patches_base: values and indices are flattened identically and paired one-to-one", f"{fw} {fi} {args}", um.line(spb),
                 fail_detail=f"weights {fw}, indices {fi}, index_add args {args}")
    rets = [unparse(n.value) for n in ast.walk(spb) if isinstance(n, ast.Return)]
    z = [c for c in calls_in(spb) if call_name(c) == "torch.zeros"]
    ok = rets == ["out.reshape(obj_shape)"] and len(z) == 1 and "torch.prod(torch.tensor(obj_shape))" in unparse(z[0])
    check.decide(ok, "C16-R3", "sum_patches_base: accumulates into zeros of the object size and reshapes row-major to the object grid", "", um.line(spb),
                 fail_detail="the accumulator is not zeros(prod(obj_shape)).reshape(obj_shape)")
    txt = unparse(sp)
    ok = "real = sum_patches_base(patches.real, indices, obj_shape)" in txt and "imag = sum_patches_base(patches.imag, indices, obj_shape)" in txt \
        and "return real + 1j * imag" in txt
    check.decide(ok, "C16-R3", "sum_patches: real and imaginary parts are scattered with the same indices and recombined as re + i·im", "", um.line(sp),
                 fail_detail="complex patches are not scattered as (real, imag) with identical indices")
    gt = unparse(gop)
    ok = "obj_flat = obj_array2.reshape(obj_array.shape[0], -1)" in gt and "torch.complex(real[:, patch_indices], imag[:, patch_indices])" in gt
    check.decide(ok, "C16-R3", "_get_obj_patches gathers from the row-major flattening of the two trailing axes with the same flat indices for re and im", "", om.line(gop),
                 fail_detail="the gather does not use obj.reshape(S, -1)[:, patch_indices] for both parts")

    # ---- R4 projection typestate --------------------------------------------------------------------------------
    tm, fp = repo.func(f"{PT}:Ptychography.fourier_projection")
    _projection(check, repo, tm, fp)

    # ---- R5 / R6 / R7 translation ramps ----------------------------------------------------------------------------
    _ramps(check, repo)


def _freq_axes(prop):
    """The two frequency vectors ↔ (roi_shape[i], sampling[i]) — zipped or spelled out.  Returns
    (ok, description, {local name: axis})."""
    grids = []
    for st in walk_no_nested_defs(prop):
        if isinstance(st, ast.Assign) and any(isinstance(c, ast.Call) and (call_name(c) or "").endswith("fftfreq") for c in ast.walk(st.value)):
            grids.append(st)
    if len(grids) == 1 and isinstance(grids[0].targets[0], ast.Tuple) and len(grids[0].targets[0].elts) == 2 \
            and all(isinstance(t, ast.Name) for t in grids[0].targets[0].elts):
        names = {t.id: i for i, t in enumerate(grids[0].targets[0].elts)}
        g = next((x for x in ast.walk(grids[0].value) if isinstance(x, ast.GeneratorExp)), None)
        if g is not None and len(g.generators) == 1 and isinstance(g.generators[0].iter, ast.Call) and call_name(g.generators[0].iter) == "zip":
            za = [unparse(a) for a in g.generators[0].iter.args]
            tv = [unparse(t) for t in g.generators[0].target.elts] if isinstance(g.generators[0].target, ast.Tuple) else []
            el = g.elt
            if isinstance(el, ast.Call) and (call_name(el) or "").endswith("fftfreq") and len(el.args) >= 2 and len(tv) == 2 and len(za) == 2:
                n_src = za[tv.index(unparse(el.args[0]))] if unparse(el.args[0]) in tv else None
                d_src = za[tv.index(unparse(el.args[1]))] if unparse(el.args[1]) in tv else None
                if n_src == "self.roi_shape" and d_src == "sampling":
                    return True, "fftfreq(n, d) zipped over (roi_shape, sampling)", names
                return False, f"fftfreq({n_src}, {d_src}) zipped", names
        return None, unparse(grids[0].value)[:80], {}
    if len(grids) != 2:
        return None, f"{len(grids)} fftfreq assignments", {}
    names, out = {}, {}
    for st in grids:
        if not (isinstance(st.targets[0], ast.Name) and isinstance(st.value, ast.Call) and (call_name(st.value) or "").endswith("fftfreq") and len(st.value.args) >= 2):
            return None, f"`{unparse(st)[:60]}`", {}
        idx = []
        for a in st.value.args[:2]:
            src = _axis_source(prop, a)
            if src is None:
                return None, f"`{unparse(a)}`", {}
            idx.append(src)
        if idx[0][0] != "self.roi_shape" or idx[0][1] not in (0, 1):
            return None, f"extent `{idx[0]}`", {}
        names[st.targets[0].id] = idx[0][1]
        out[st.targets[0].id] = idx
    if sorted(names.values()) != [0, 1]:
        return None, f"axes {names}", {}
    for nm, idx in out.items():
        if idx[1] != ("sampling", idx[0][1]):
            return False, f"{nm} = fftfreq({idx[0][0]}[{idx[0][1]}], {idx[1][0]}[{idx[1][1]}])", names
    return True, str(out), names


def _axis_source(fn, e: ast.AST, depth: int = 0):
    """(base expression text, constant index) an extent / sampling argument is taken from, looking through
    int()/float() casts, single-definition locals and tuple destructuring of `base` or of a generator over it."""
    if depth > 4:
        return None
    if isinstance(e, ast.Call) and (call_name(e) or "") in ("int", "float") and len(e.args) == 1:
        return _axis_source(fn, e.args[0], depth + 1)
    if isinstance(e, ast.Subscript) and isinstance(e.slice, ast.Constant) and isinstance(e.slice.value, int):
        return (unparse(e.value), e.slice.value % 2 if e.slice.value < 0 else e.slice.value)
    if isinstance(e, ast.Name):
        dd = definitions(fn, e.id)
        if len(dd) != 1:
            return None
        d = dd[0]
        if d.__class__.__name__ == "TupleItem":
            v = d.value
            if isinstance(v, ast.Call) and (call_name(v) or "") in ("tuple", "list") and len(v.args) == 1:
                v = v.args[0]
            if isinstance(v, (ast.GeneratorExp, ast.ListComp)) and len(v.generators) == 1 and not v.generators[0].ifs:
                g = v.generators[0]
                # element must be the loop variable itself, possibly cast
                el = v.elt
                while isinstance(el, ast.Call) and (call_name(el) or "") in ("int", "float") and len(el.args) == 1:
                    el = el.args[0]
                if isinstance(el, ast.Name) and isinstance(g.target, ast.Name) and el.id == g.target.id:
                    return (unparse(g.iter), d.index)
                return None
            if isinstance(v, (ast.Attribute, ast.Name)):
                return (unparse(v), d.index)
            return None
        if isinstance(d, ast.AST):
            return _axis_source(fn, d, depth + 1)
    return None


def _broadcast_axis(sl: ast.AST):
    """Position (counted from the end: −2 rows, −1 columns) a 1-D vector occupies after `v[None, :, None]`-style
    indexing; None if the index is not a pure broadcast."""
    elts = sl.elts if isinstance(sl, ast.Tuple) else [sl]
    kinds = []
    for e in elts:
        if is_const(e, None):
            kinds.append("n")
        elif isinstance(e, ast.Slice) and e.lower is None and e.upper is None and e.step is None:
            kinds.append("s")
        else:
            return None
    if kinds.count("s") > 1 or "n" not in kinds:
        return None
    if "s" not in kinds:
        kinds.append("s")  # v[None] ≡ v[None, :]
    return kinds.index("s") - len(kinds)


def _tilt_components(prop) -> dict:
    """{local name: axis} for the names destructured from self.probe_tilt."""
    for st in walk_no_nested_defs(prop):
        if isinstance(st, ast.Assign) and isinstance(st.targets[0], ast.Tuple) and dotted(st.value) == "self.probe_tilt" and len(st.targets[0].elts) == 2:
            return {t.id: i for i, t in enumerate(st.targets[0].elts) if isinstance(t, ast.Name)}
    raise AnalysisError("_compute_propagator_arrays: `… = self.probe_tilt` destructuring not found")


def _resolve_names(fn, e: ast.AST, depth: int = 0) -> ast.AST:
    """Inline single-definition local names (returns a synthetic expression that *contains* the
    original sub-nodes, so identity tests on call nodes still work)."""
    class T(ast.NodeTransformer):
        def visit_Name(self, n):
            if depth > 4:
                return n
            dd = [d for d in definitions(fn, n.id) if isinstance(d, ast.AST)]
            if len(dd) == 1:
                return _resolve_names(fn, dd[0], depth + 1)
            return n
    import copy
    # shallow rebuild: only wrap, never deep-copy repo nodes
    if isinstance(e, ast.Name):
        dd = [d for d in definitions(fn, e.id) if isinstance(d, ast.AST)]
        if len(dd) == 1 and depth <= 4:
            return _resolve_names(fn, dd[0], depth + 1)
        return e
    holder = ast.Tuple(elts=[e] + [_resolve_names(fn, n, depth + 1) for n in ast.walk(e) if isinstance(n, ast.Name) and depth <= 4
                                   and len([d for d in definitions(fn, n.id) if isinstance(d, ast.AST)]) == 1], ctx=ast.Load())
    return holder


def _projection(check, repo, mod, fp) -> None:
    check.analysed(f"{PT}:Ptychography.fourier_projection", f"{PT}:Ptychography.gradient_step")
    params = [a.arg for a in fp.args.args]
    meas = params[1]
    check.assume("the measured amplitudes handed to fourier_projection are detector-centred (they are the loss targets, which "
                 "DetectorPixelated.forward's fftshift-ed predictions are compared with)")
    # the single-/mixed-state dispatch reads the LIVE number of modes.  Two sites: PtychographyBase.num_probes either delegates to the probe model (always current) or returns
    # a value cached when the model was installed — the cache is sound only while nothing can change the model's mode count afterwards (no store into num_probes in a
    # ProbePixelated setter / method other than __init__).
    _npm, nump = repo.func(f"{PB}:PtychographyBase.num_probes")
    nrets = [r.value for r in ast.walk(nump) if isinstance(r, ast.Return) and r.value is not None]
    delegates = len(nrets) == 1 and unparse(nrets[0]) in ("self.probe_model.num_probes", "self._probe_model.num_probes")
    key_np = "fourier_projection's single/mixed-state dispatch reads the live number of probe modes"
    if delegates:
        check.holds("C16-R4", key_np, "num_probes delegates to the probe model", repo.module(PB).line(nump))
    elif len(nrets) == 1 and isinstance(nrets[0], ast.Attribute) and dotted(nrets[0].value) == "self" and nrets[0].attr.startswith("_"):
        PMq = "quantem.diffractive_imaging.probe_models"
        _pmm, pcls = repo.cls(f"{PMq}:ProbePixelated")
        writers = [f_.name + ("@setter" if any(isinstance(d_, ast.Attribute) and d_.attr == "setter" for d_ in f_.decorator_list) else "")
                   for f_ in pcls.body if isinstance(f_, ast.FunctionDef) and f_.name != "__init__"
                   and any(isinstance(n_, ast.Assign) and any(dotted(t_) in ("self.num_probes", "self._num_probes") for t_ in n_.targets) for n_ in ast.walk(f_))]
        if writers:
            check.violated("C16-R4", key_np, f"PtychographyBase.num_probes returns the cached `{unparse(nrets[0])}` while ProbePixelated.{writers[0]} can change the model's mode count afterwards: "
                           f"after a 2-mode stack is installed through the probe setter the dispatch still takes the single-state branch — the summed Fourier magnitude is √2 × the "
                           f"measured amplitude", repo.module(PB).line(nump), definite=True)
        else:
            check.holds("C16-R4", key_np, "cached at model installation; no method of the probe model changes its mode count afterwards", repo.module(PB).line(nump))
    else:
        raise AnalysisError("PtychographyBase.num_probes: source of the mode count not recognised")
    # centring typestate (qv/domains/frames.py): measured data are Centred, spectra are Corner; every element-wise pairing joins two values of the SAME frame,
    # every inverse transform receives a Corner spectrum — per branch.  estimate_amplitudes is summarised for the option values its callers actually pass.
    _tm, _fp, est, fr, summaries = _frame_events(repo)
    n_pair = 0
    for node, kind, ok, detail in fr.events:
        if kind == "shift":
            continue  # reported under R9
        n_pair += 1
        what = "pairs two values of the same centring" if kind == "pair" else "receives a corner-centred spectrum"
        check.decide(ok, "C16-R4", f"fourier_projection: `{unparse(node)[:60]}` {what}", detail, mod.line(node), definite=True,
                     fail_detail=f"{detail}: amplitudes are paired with the wrong Fourier pixels (for odd ROI sizes also after an attempted re-centring with the same shift "
                                 f"function) — |result| ≠ measured and the projection is not idempotent")
    check.floor("fourier_projection: framed pairings / inverse transforms", n_pair, 3)
    for key, (rets, evs) in sorted(summaries.items()):
        for node, kind, ok, detail in evs:
            check.decide(ok, "C16-R4", f"estimate_amplitudes[corner_centered={key}, the value fourier_projection passes]: `{unparse(node)[:50]}` is applied to a value in the frame it expects",
                         detail, repo.module(PB).line(node), definite=True, fail_detail=detail)
        check.decide(len(rets) == 1 and rets[0] is not None and not str(rets[0]).startswith("Broken"), "C16-R4",
                     f"estimate_amplitudes[corner_centered={key}] returns the far-field amplitudes in one definite frame", str(rets), repo.module(PB).line(est), definite=True,
                     fail_detail=f"returns {rets}")
    if not summaries:
        raise AnalysisError("fourier_projection: estimate_amplitudes call not summarised")
    # the detector model centres its prediction with the SAME operator as estimate_amplitudes (fftshift: DC at n//2), the operator whose
    # inverse (ifftshift) fourier_projection applies to the measured amplitudes; on odd axes fftshift ≠ ifftshift
    DETM = "quantem.diffractive_imaging.detector_models"
    detm, det = repo.func(f"{DETM}:DetectorPixelated.forward")
    check.analysed(f"{DETM}:DetectorPixelated.forward")
    dsh = [(call_name(c) or "").split(".")[-1] for c in calls_in(det) if (call_name(c) or "").split(".")[-1] in ("fftshift", "ifftshift")]
    dims = [unparse(kwarg(c, "dim") or ast.Constant(None)) for c in calls_in(det) if (call_name(c) or "").split(".")[-1] in ("fftshift", "ifftshift")]
    check.decide(dsh == ["fftshift"] and all(d in ("(-2, -1)", "(-1, -2)") for d in dims), "C16-R4",
                 "DetectorPixelated.forward centres the predicted pattern with fftshift over the detector axes — the operator fourier_projection inverts and estimate_amplitudes applies",
                 str(dsh), detm.line(det),
                 fail_detail=f"the detector model applies {dsh} (dims {dims}): on an odd detector axis its DC pixel is not where the measured data, estimate_amplitudes (fftshift) and "
                             f"fourier_projection (ifftshift of the measured amplitudes) put it — projected exit waves no longer reproduce the measured amplitudes")
    # single-state arm: measured × unit-modulus phase
    arm = next((n for n in ast.walk(fp) if isinstance(n, ast.If) and "num_probes == 1" in unparse(n.test)), None)
    if arm is None:
        unit_phase = [c for c in calls_in(fp) if (call_name(c) or "").endswith("exp") and any(isinstance(x, ast.Call) and (call_name(x) or "").endswith("angle") for x in ast.walk(c))]
        if not unit_phase:
            # no dedicated coherent path and no exp(i·angle(F)) anywhere: every probe count goes through a rescaling of F itself
            check.violated("C16-R4", "fourier_projection[single state]: result = measured × exp(i·angle(F)) — modulus equals the measured amplitude for every F incl. 0",
                           "there is no single-state path and no unit-modulus phase factor: the projection rescales F by measured/|F| (with |F| = 0 mapped to ∞), so wherever the model "
                           "spectrum vanishes the result is 0 instead of the measured amplitude — not exact and not idempotent for band-limited exit waves", mod.line(fp))
            return
        raise AnalysisError("fourier_projection: single-state arm not found")
    st = [s for s in arm.body if isinstance(s, ast.Assign) and dotted(s.targets[0]) == "fourier_modified_overlap"]
    if len(st) != 1:
        raise AnalysisError("fourier_projection: single-state assignment not found")
    v = st[0].value
    facs = _mul_factors(v)
    others = [f for f in facs if unparse(f) != meas]
    ok = len(facs) == 2 and len(others) == 1 and isinstance(others[0], ast.Call) and (call_name(others[0]) or "").endswith("exp")
    if ok:
        ea = ExpArg(fp, others[0].args[0], {"fourier_overlap"})
        ok = ea.is_pure_imaginary() and any("angle" in s for s in ea.poly.n.symbols())
    check.decide(ok, "C16-R4", "fourier_projection[single state]: result = measured × exp(i·angle(F)) — modulus equals the measured amplitude for every F incl. 0",
                 unparse(v)[:70], mod.line(st[0]),
                 fail_detail=f"`{unparse(v)[:80]}`: the factor multiplying the measured amplitudes is not exp(i·angle(F)); a normalised spectrum "
                             f"such as F/(|F|+ε) has modulus < 1 (0 where F = 0), so the projection is neither exact nor idempotent there")
    # mixed arm structure
    txt = unparse(fp)
    ok = "amplitude_modification = measured_amplitudes / farfield_amplitudes" in txt and "fourier_modified_overlap = amplitude_modification[None] * fourier_overlap" in txt
    check.decide(ok, "C16-R4", "fourier_projection[mixed state]: every mode is rescaled by measured / estimated amplitude", "", mod.line(fp),
                 fail_detail="the mixed-state arm is not (measured / farfield)[None] · F")
    rets = [unparse(n.value) for n in ast.walk(fp) if isinstance(n, ast.Return)]
    f2 = [c for c in calls_in(fp) if (call_name(c) or "").endswith(".fft2")]
    ok = rets == ["torch.fft.ifft2(fourier_modified_overlap, norm='ortho')"] and len(f2) == 1 and _norm_of(f2[0]) == "'ortho'"
    check.decide(ok, "C16-R4", "fourier_projection: forward and inverse transform are the same unitary pair", str(rets), mod.line(fp),
                 fail_detail=f"returns {rets}")


def _mul_factors(e: ast.AST) -> list[ast.AST]:
    if isinstance(e, ast.BinOp) and isinstance(e.op, ast.Mult):
        return _mul_factors(e.left) + _mul_factors(e.right)
    return [e]


def _ramps(check, repo: Repo) -> None:
    sites = [
        (PU, "fourier_translation_operator", {"positions", "r", "c"}, {"kr", "kc", "r", "c"}, {"positions": Pair((ROW, COL))}),
        (PU, "shift_array", {"rshift", "cshift"}, {"qr", "qc", "rshift", "cshift"}, {}),
        (IU, "cross_correlation_shift", {"shifts"}, {"kx", "ky", "shifts"}, {}),
        (DU, "_fourier_shift_stack", {"shifts", "shift_i", "shift_j"}, {"grid_i", "grid_j", "shift_i", "shift_j"}, {"shifts": Pair((ROW, COL))}),
        (TC, None, {"shift"}, {"shift"}, {}),
    ]
    n_ramps = 0
    signs = {}
    for modname, fname, shift_names, real_names, seeds in sites:
        m = repo.module(modname)
        if fname is None:
            fns = [n for n in ast.walk(m.tree) if isinstance(n, ast.FunctionDef) and any(
                "fftfreq" in unparse(c) for c in _exp_calls(n))]
            if not fns:
                raise AnalysisError(f"{modname}: inline ramp not found")
            fn = fns[0]
            label = f"{modname.split('.')[-1]}.{fn.name}"
        else:
            _, fn = repo.func(f"{modname}:{fname}")
            label = fname
        check.analysed(f"{modname}:{fn.name}")
        for c in _exp_calls(fn):
            txt = unparse(c.args[0])
            if "pi" not in txt or not any(isinstance(x, ast.Constant) and isinstance(x.value, complex) for x in ast.walk(_inline(fn, c.args[0]))):
                continue
            ea = ExpArg(fn, c.args[0], set(real_names) | {"torch", "np", "xp"})
            n_ramps += 1
            check.decide(ea.is_pure_imaginary(), "C16-R1", f"{label}: ramp `{unparse(c)[:40]}` is exp(i·real) — unit modulus",
                         f"powers of i: {sorted(ea.imag_degrees())}", m.line(c),
                         fail_detail=f"the ramp exponent has terms with {sorted(ea.imag_degrees())} factors of i: translation does not preserve intensity")
            sg = ea.sign()
            signs[f"{label}:{unparse(c)[:30]}"] = (sg, m.line(c), c)
            deg = ea.degree_in(shift_names)
            check.decide(deg == {1}, "C16-R6", f"{label}: exponent of `{unparse(c)[:40]}` is homogeneous-linear in the shift", f"degree {sorted(deg)}", m.line(c),
                         fail_detail=f"degree in the shift is {sorted(deg)}: T(s₁)·T(s₂) ≠ T(s₁+s₂) (a constant phase or higher-order term was added)")
        k = KAT(fn, seeds=seeds, image_like=("ar", "im_meas", "F_im"), index_axes={"im_meas": {0: ROW, 1: COL}, "F_im": {0: ROW, 1: COL}}).run()
        for n, msg in k.clashes:
            check.violated("C16-R7", f"{label}: axis clash `{unparse(n)[:60]}`", msg + " — integer shifts are no longer exact circular rolls on non-square arrays",
                           m.line(n), definite=True)
        if not k.clashes:
            check.holds("C16-R7", f"{label}: each frequency vector meets the shift component, extent and array axis of its own direction", where=m.line(fn))
    check.floor("translation ramps", n_ramps, 6)
    vals = {v[0] for v in signs.values()}
    for site, (sg, where, c) in signs.items():
        check.decide(sg == -1, "C16-R5", f"{site}: translation ramps use the common sign exp(−2πi k·s)", f"sign {sg}", where,
                     fail_detail=f"this ramp has sign {sg} while the others use {sorted(vals - {sg})}: the same shift vector moves the array in "
                                 f"opposite directions depending on the code path")
    # the ramp stays COMPLEX at every call site: a ramp cast to a real dtype is cos(2π k·s) — the average of the translations by +s and −s
    n_sites = 0
    for mname_, m_ in repo.modules.items():
        if not mname_.startswith("quantem.diffractive_imaging"):
            continue
        for c in ast.walk(m_.tree):
            if not (isinstance(c, ast.Call) and (call_name(c) or "").split(".")[-1] == "fourier_translation_operator"):
                continue
            n_sites += 1
            dk = kwarg(c, "dtype") or (c.args[3] if len(c.args) > 3 else None)
            ok_ = dk is None or is_const(dk, None) or ("complex" in unparse(dk) and not isinstance(dk, ast.IfExp))
            why_ = "no dtype (complex ramp as computed)" if dk is None else unparse(dk)[:60]
            if not ok_ and isinstance(dk, ast.IfExp):
                # `<array>.dtype if is_complex(<array>) else None/complex`
                t_ = unparse(dk.test)
                pos_, neg_ = (dk.body, dk.orelse) if "is_complex" in t_ and not t_.startswith("not ") else (dk.orelse, dk.body)
                ok_ = "is_complex" in t_ and (is_const(neg_, None) or "complex" in unparse(neg_))
            encl_ = next((f.name for f in ast.walk(m_.tree) if isinstance(f, ast.FunctionDef) and f.lineno <= c.lineno <= (f.end_lineno or f.lineno)
                          and not any(isinstance(d_, ast.Name) and d_.id == "overload" for d_ in f.decorator_list)), "?")
            check.decide(ok_, "C16-R5", f"{encl_}: the translation ramp is requested in a complex dtype (or none)", why_, m_.line(c),
                         fail_detail=f"`{unparse(c)[:80]}` asks for dtype `{why_}`, which is real for real-valued inputs: the ramp exp(−2πi k·s) is cast to cos(2π k·s) — an integer shift of a "
                                     f"real array is no longer a circular roll (two half-intensity copies at +s and −s)")
    check.floor("fourier_translation_operator call sites", n_sites, 2)
    # fourier_translation_operator: frequencies are fftfreq(n, d=1) of the extent they are broadcast on
    um, fto = repo.func(f"{PU}:fourier_translation_operator")
    d = {k: [unparse(x) for x in definitions(fto, k) if isinstance(x, ast.AST)] for k in ("kr", "kc", "r", "c")}
    ok = "fftfreq(nr, d=1.0)" in (d["kr"] or [""])[0] and "fftfreq(nc, d=1.0)" in (d["kc"] or [""])[0] \
        and d["r"] == ["positions[..., 0][:, None, None]"] and d["c"] == ["positions[..., 1][:, None, None]"]
    check.decide(ok, "C16-R7", "fourier_translation_operator: unit-pitch frequencies of (rows, cols) meet positions[…,0] / positions[…,1]", str(d), um.line(fto),
                 fail_detail=f"{d}")
    _, mf = repo.func(f"{PU}:make_Fourier_coords2D")
    t = unparse(mf)
    ok = "qr = np.fft.fftfreq(Nr, pixelSize_r)" in t and "qc = np.fft.fftfreq(Nc, pixelSize_c)" in t and "qc, qr = np.meshgrid(qc, qr)" in t and "return (qr, qc)" in t
    check.decide(ok, "C16-R7", "make_Fourier_coords2D returns (row frequencies, column frequencies) on an (Nr, Nc) grid", "", um.line(mf),
                 fail_detail="make_Fourier_coords2D does not return (qr, qc) laid out as meshgrid(qc, qr)")
    _, fse = repo.func(f"{PU}:fourier_shift_expand")
    t = unparse(fse)
    ok = "shifted_fourier_array = fourier_array * phase" in t and "fourier_translation_operator(positions, array.shape, expand_dim" in t
    check.decide(ok, "C16-R2", "fourier_shift_expand multiplies the spectrum by the translation operator of the array's own shape", "", um.line(fse),
                 fail_detail="fourier_shift_expand does not apply fourier_translation_operator(positions, array.shape, …)")


def _inline(fn, e: ast.AST) -> ast.AST:
    return _resolve_names(fn, e)


MANIFEST = {
    "text": "Decides the structural necessary conditions of the operator identities for all inputs: every propagator, tilt and "
            "translation factor is exp(exactly one imaginary unit × real-role factors) (unit modulus), exponents are "
            "homogeneous-linear in dz / in the shift (additive composition), all translation ramps share the sign exp(−2πi k·s) "
            "and pair each frequency vector with the shift component, extent and array axis of its own direction (kinded-axis "
            "analysis); each fft2/ifft2 chain uses one normalisation and all detector-plane transforms are the unitary FFT with "
            "intensity = Σ|F|²; patch scatter is an additive index_add over exactly the flattening and flat indices the gather "
            "uses (re and im alike); the detector-centred measured amplitudes reach the Fourier projection through exactly one "
            "inverse shift and are multiplied by exp(i·angle(F)) only.",
    "note": "Not decided: the identities to floating-point precision; the real-input arm of fourier_shift_expand (the ramp is "
            "cast to the array's dtype — outside the property's complex domain). Trusted: the real-role table for physical "
            "parameters and torch/numpy FFT semantics.",
    "technique": "value-kind normal form of exponents (powers of i) + typestate for centring + kinded-axis analysis + sibling agreement",
}
MANIFEST["text"] += ' Also: frequency vectors are found by their fftfreq definition (extent and sampling of the same axis through casts/destructuring), each broadcast use lies on its own axis, each tilt component multiplies the frequencies of its own axis; the detector model centres with fftshift over the detector axes (the operator the projection inverts).'
MANIFEST["text"] += ' R8: ObjectPixelated.backward applies the ELEMENT-WISE conjugate of the forward kernel (conj / conj_physical), never a conjugate transpose (.adjoint() / .mH / .H).'
MANIFEST["text"] += " R9: in fourier_projection a value that went through fftshift is brought back by ifftshift (and vice versa) — the same shift applied twice along a data-flow chain leaves odd-length axes rolled by one sample."
MANIFEST["text"] += " R10: the frequency grid of fourier_translation_operator is never converted to the dtype of the shift vectors (integer positions would truncate every frequency to 0); recogniser self-tested on an embedded positive example."
MANIFEST["text"] += ' R4/R9 are decided by a centring typestate (Centred/Corner; fftshift: Corner→Centred, ifftshift: Centred→Corner; element-wise pairings need equal frames; ifft2 needs Corner), flow-sensitive per branch, with estimate_amplitudes summarised for the option values its callers pass.'
MANIFEST["text"] += ' R4 also (coupled): the single/mixed-state dispatch reads the live mode count (delegation, or a cache that no probe-model method can invalidate).'
