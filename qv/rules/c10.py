"""C10 — constraints yield admissible models: value-kind structure of the hard constraints,
Gram–Schmidt roles, probe normalisation algebra (E6 targeted form, E8)."""
from __future__ import annotations

import ast

from ..core.cfg import CFG, assigned_on_every_path
from ..core.repo import (AnalysisError, Repo, call_name, calls_in, definitions, dotted, func_params, is_const,
                         kwarg, names_in, unparse, walk_no_nested_defs)
from ..domains.algnf import NotArithmetic, Rat, from_ast
from ..domains.gramschmidt import GramSchmidt
from .c16 import ExpArg

OMD = "quantem.diffractive_imaging.object_models"
PM = "quantem.diffractive_imaging.probe_models"
TOM = "quantem.tomography.object_models"

EXPLANATION = (
    "the hard constraints are specialised per object type on the source: the value handed on is "
    "(clamp of |·| to the constants [0, 1] | the literal 1) × exp(one imaginary unit × real phase), "
    "or an outermost clamp at 0 for potentials under positivity; the only operations after that on "
    "the unsmoothed paths are the [0,1] FoV mask and slice tying as the last write; Gram–Schmidt "
    "conjugates the basis vector, subtracts from the running vector, normalises by its own norm, "
    "restores the original norm of the same index before the descending intensity sort and gathers "
    "real and imaginary parts with one order tensor; the probe scalings are sqrt(I/P) and "
    "sqrt(w/c) with normalised weights that sum to one"
)


def _is_lower_clamp0(e: ast.AST) -> bool:
    """Outermost operation bounds the value below by 0."""
    if isinstance(e, ast.Call):
        cn = call_name(e) or ""
        short = cn.split(".")[-1] if cn else (e.func.attr if isinstance(e.func, ast.Attribute) else "")
        if short in ("clamp", "clip"):
            mn = kwarg(e, "min") or (e.args[1] if cn.startswith("torch.") and len(e.args) > 1 else (e.args[0] if not cn.startswith("torch.") and e.args else None))
            return mn is not None and isinstance(mn, ast.Constant) and mn.value == 0
        if short in ("relu", "clamp_min"):
            return True if short == "relu" else (e.args and isinstance(e.args[-1], ast.Constant) and e.args[-1].value == 0)
        if short in ("max", "maximum") and len(e.args) == 2:
            return any("zeros_like" in unparse(a) or is_const(a, 0) or is_const(a, 0.0) for a in e.args)
    return False


def run(check, repo: Repo) -> None:
    omod, ahc = repo.func(f"{OMD}:ObjectConstraints.apply_hard_constraints")
    check.analysed(f"{OMD}:ObjectConstraints.apply_hard_constraints", f"{OMD}:ObjectPixelated.obj",
                   f"{PM}:ProbeConstraints._probe_orthogonalization_constraint", f"{PM}:ProbePixelated._apply_weights",
                   f"{PM}:ProbePixelated.initial_probe_weights@setter", f"{TOM}:ObjectConstraints.apply_hard_constraints")
    check.assume("field-of-view masks lie in [0, 1] (the property's quantifier); Gaussian/Butterworth smoothing is outside the amplitude claim")

    # ---- R5 the constrained probe is the constraint of the CURRENT parameter (coupled) -----------------------
    # The `probe` getter either applies the hard constraints on every read, or memoises the result under a key.  A key built from the tensor's identity
    # (`data_ptr()`) and autograd version (`_version`) notices re-binding and tracked in-place operations — but NOT writes through `.data` (`p.data.copy_(…)`, `p.data[...] = …`),
    # which keep the storage and bypass the version counter.  Memo ∧ such a write → stale orthogonalised modes.
    pmm_, pcls_ = repo.cls(f"{PM}:ProbePixelated")
    getter_ = next((f_ for f_ in pcls_.body if isinstance(f_, ast.FunctionDef) and f_.name == "probe" and any(unparse(d_) == "property" for d_ in f_.decorator_list)), None)
    if getter_ is None:
        raise AnalysisError("ProbePixelated.probe getter not found")
    g_rets = [r.value for r in ast.walk(getter_) if isinstance(r, ast.Return) and r.value is not None]
    kept_ = [r for r in g_rets if isinstance(r, ast.Attribute) and dotted(r.value) == "self" and r.attr.startswith("_") and r.attr != "_probe"]
    key5 = "ProbePixelated.probe: every read returns the hard constraints applied to the current parameter"
    if not kept_:
        check.holds("C10-R5", key5, "no memoised return", pmm_.line(getter_))
    else:
        ident_key = any(isinstance(c_, ast.Call) and isinstance(c_.func, ast.Attribute) and c_.func.attr == "data_ptr" for c_ in ast.walk(getter_)) or \
            any(isinstance(x_, ast.Attribute) and x_.attr == "_version" for x_ in ast.walk(getter_))
        data_writes = []
        for f_ in [x for x in pcls_.body if isinstance(x, ast.FunctionDef)]:
            for c_ in calls_in(f_):
                if isinstance(c_.func, ast.Attribute) and c_.func.attr.endswith("_") and not c_.func.attr.startswith("__") and isinstance(c_.func.value, ast.Attribute) \
                        and c_.func.value.attr == "data" and dotted(c_.func.value.value) == "self._probe":
                    data_writes.append((f_.name, c_))
            for n_ in ast.walk(f_):
                if isinstance(n_, (ast.Assign, ast.AugAssign)):
                    for t_ in (n_.targets if isinstance(n_, ast.Assign) else [n_.target]):
                        if isinstance(t_, ast.Subscript) and dotted(t_.value) == "self._probe.data":
                            data_writes.append((f_.name, n_))
        if ident_key and data_writes:
            check.violated("C10-R5", key5, f"the getter returns the memoised `{unparse(kept_[0])}` under a key of data_ptr()/_version, and ProbePixelated.{data_writes[0][0]} writes the parameter "
                           f"through `.data` (`{unparse(data_writes[0][1])[:50]}`): same storage, same version — a no-grad read after assigning a new probe returns the orthogonalised modes "
                           f"of the PREVIOUS parameters", pmm_.line(data_writes[0][1]), definite=True)
        elif ident_key:
            check.holds("C10-R5", key5, "memo keyed on identity/version; no write through `.data` in the class", pmm_.line(getter_))
        else:
            raise AnalysisError("ProbePixelated.probe: memoised return under a key that is not recognised — staleness not decided")

    # ---- R1 value kinds of the object constraint ---------------------------------------------------------
    top = next((n for n in ahc.body if isinstance(n, ast.If) and "self.obj_type" in unparse(n.test)), None)
    if top is None:
        raise AnalysisError("apply_hard_constraints: object-type dispatch not found")
    tt = unparse(top.test)
    check.decide("'complex'" in tt and "'pure_phase'" in tt, "C10-R1", "apply_hard_constraints: complex and pure-phase objects share the polar arm; everything else is a potential",
                 tt, omod.line(top), fail_detail=f"dispatch test is `{tt}`")
    polar, pot = top.body, top.orelse
    # amplitude
    amp_if = next((n for n in polar if isinstance(n, ast.If) and "'complex'" in unparse(n.test)), None)
    if amp_if is None:
        raise AnalysisError("apply_hard_constraints: amplitude dispatch not found")
    amp_c = [s.value for s in amp_if.body if isinstance(s, ast.Assign) and dotted(s.targets[0]) == "amp"]
    amp_p = [s.value for s in amp_if.orelse if isinstance(s, ast.Assign) and dotted(s.targets[0]) == "amp"]
    ok = len(amp_c) == 1 and isinstance(amp_c[0], ast.Call) and (call_name(amp_c[0]) or "").endswith("clamp") and len(amp_c[0].args) == 3 \
        and unparse(amp_c[0].args[0]) == "torch.abs(obj)" and [unparse(a) for a in amp_c[0].args[1:]] == ["0.0", "1.0"]
    check.decide(ok, "C10-R1", "complex objects: amplitude = clamp(|obj|, 0, 1)", unparse(amp_c[0]) if amp_c else "", omod.line(amp_if),
                 fail_detail=f"amp = `{unparse(amp_c[0]) if amp_c else '?'}`: the amplitude handed to the forward model can exceed 1")
    ok = len(amp_p) == 1 and isinstance(amp_p[0], ast.Constant) and amp_p[0].value == 1.0
    check.decide(ok, "C10-R1", "pure-phase objects: amplitude is the literal 1", unparse(amp_p[0]) if amp_p else "", omod.line(amp_if),
                 fail_detail=f"amp = `{unparse(amp_p[0]) if amp_p else '?'}` for pure-phase objects")
    ph = [s.value for s in polar if isinstance(s, ast.Assign) and dotted(s.targets[0]) == "phase"]
    ok = len(ph) == 1 and unparse(ph[0]) == "obj.angle() - obj.angle().mean()"
    check.decide(ok, "C10-R1", "polar arm: the phase is a real quantity (angle minus its mean)", unparse(ph[0]) if ph else "", omod.line(top),
                 fail_detail=f"phase = `{unparse(ph[0]) if ph else '?'}`")
    obj2_defs = [s for n in polar for s in ast.walk(n) if isinstance(s, ast.Assign) and dotted(s.targets[0]) == "obj2"]
    check.floor("polar arm: obj2 definitions", len(obj2_defs), 2)
    for s in obj2_defs:
        facs = _mul(s.value)
        exps = [f for f in facs if isinstance(f, ast.Call) and (call_name(f) or "").endswith("exp")]
        rest = [unparse(f) for f in facs if f not in exps]
        ok = len(exps) == 1 and set(rest) <= {"amp", "mask"} and "amp" in rest
        if ok:
            ea = ExpArg(ahc, exps[0].args[0], {"phase", "mask"})
            ok = ea.is_pure_imaginary() and not ea.unknown
        check.decide(ok, "C10-R1", f"polar arm: `{unparse(s)[:50]}` = amp [× mask] × exp(i·real) — modulus = amp [× mask]", str(rest), omod.line(s),
                     fail_detail=f"`{unparse(s.value)[:70]}` is not amp (× mask) × exp(i·real phase): the modulus is no longer the clamped amplitude")
    # potential arm
    pos_if = next((n for n in pot if isinstance(n, ast.If) and "positivity" in unparse(n.test)), None)
    if pos_if is None:
        raise AnalysisError("apply_hard_constraints: positivity dispatch not found")
    # linearise the potential arm on the positivity path and take the LAST write to obj2
    def last_obj2(stmts, acc):
        for s_ in stmts:
            if isinstance(s_, ast.If):
                if "positivity" in unparse(s_.test):
                    last_obj2(s_.body, acc)
                else:
                    last_obj2(s_.body, acc)
                    last_obj2(s_.orelse, acc)
            elif isinstance(s_, (ast.Assign, ast.AugAssign)) and dotted(s_.targets[0] if isinstance(s_, ast.Assign) else s_.target) == "obj2":
                acc.append(s_)
        return acc
    writes = last_obj2(pot, [])
    pv = [writes[-1].value] if writes and isinstance(writes[-1], ast.Assign) else []
    ok = len(pv) == 1 and _is_lower_clamp0(pv[0])
    check.decide(ok, "C10-R1", "potential + positivity: the outermost operation clamps at 0", unparse(pv[0]) if pv else "", omod.line(pos_if),
                 fail_detail=f"obj2 = `{unparse(pv[0]) if pv else '?'}`: something is applied after (or instead of) the clamp at 0, so a potential handed to "
                             f"the forward model can be negative (e.g. clamp(obj, 0) − offset)")
    check.decide("True" in unparse(pos_if.test) or ".get('positivity', True)" in unparse(pos_if.test) or unparse(pos_if.test) == "self.constraints['positivity']",
                 "C10-R1", "potential: positivity is read from the constraints (default on)", unparse(pos_if.test), omod.line(pos_if), fail_detail=unparse(pos_if.test))
    # what happens after the type block
    idx = ahc.body.index(top)
    tail = ahc.body[idx + 1:]
    kinds = []
    for st in tail:
        t = unparse(st)
        if isinstance(st, ast.If) and "apply_fov_mask" in unparse(st.test) and "mask is not None" in unparse(st.test):
            ok = [unparse(x) for x in st.body] == ["obj2 *= mask"]
            kinds.append("mask" if ok else f"?mask:{t[:40]}")
        elif isinstance(st, ast.If) and "gaussian_sigma" in unparse(st.test) and "is not None" in unparse(st.test):
            kinds.append("gaussian(optional)")
        elif isinstance(st, ast.If) and "q_lowpass" in unparse(st.test):
            kinds.append("butterworth(optional)")
        elif isinstance(st, ast.If) and "num_slices > 1" in unparse(st.test):
            inner = unparse(st)
            ok = "identical_slices" in inner and "obj2[:] = torch.mean(obj2, dim=0, keepdim=True)" in inner
            kinds.append("tie" if ok else f"?tie:{inner[:40]}")
        elif isinstance(st, ast.Return):
            kinds.append("return obj2" if unparse(st.value) == "obj2" else f"?return {unparse(st.value)}")
        elif isinstance(st, ast.Expr) and isinstance(st.value, ast.Constant):
            continue
        else:
            kinds.append(f"?{t[:50]}")
    want = ["mask", "gaussian(optional)", "butterworth(optional)", "tie", "return obj2"]
    # slice tying is idempotent and keeps slices identical, so an additional (earlier) tie changes nothing the property speaks about; what is required is
    # that the LAST write before the return is the tie (a per-slice mask or filter after it can make the slices differ again) and that nothing unknown runs
    tied_last = len(kinds) >= 2 and kinds[-2] == "tie"
    kinds_eff = [k for i, k in enumerate(kinds) if not (k == "tie" and i != len(kinds) - 2)] if tied_last else kinds
    if "mask" not in kinds_eff:
        want = [k for k in want if k != "mask"]  # the field-of-view mask only attenuates: leaving it out cannot make an admissible object inadmissible
    check.decide(kinds_eff == want, "C10-R1", "after the admissible-making step only: [0,1] mask, optional smoothing (excluded), slice tying as the last write, return",
                 str(kinds), omod.line(ahc), definite=all(not k.startswith("?") for k in kinds) and not tied_last,
                 fail_detail=f"statements after the type block are {kinds}; expected {want}: an extra operation after the clamp/unit-modulus step (or tying that "
                             f"is not last) can break admissibility")
    check.advisory("C10-R1", "apply_hard_constraints: with apply_fov_mask the mask multiplies complex objects twice (amp·mask in the polar arm, then obj2 *= mask)",
                   "amplitude idempotence is therefore decided for the unmasked configuration (and 0/1 masks) only", omod.line(ahc))
    pm_, op = repo.func(f"{OMD}:ObjectPixelated.obj")
    ok = [unparse(n.value) for n in ast.walk(op) if isinstance(n, ast.Return)] == ["self.apply_hard_constraints(self._obj, mask=self.mask)"]
    check.decide(ok, "C10-R1", "ObjectPixelated.obj always hands out the constrained object", "", omod.line(op), fail_detail="obj does not return apply_hard_constraints(self._obj, mask=self.mask)")
    tmod, th = repo.func(f"{TOM}:ObjectConstraints.apply_hard_constraints")
    tv = [n for n in ast.walk(th) if isinstance(n, ast.If) and "positivity" in unparse(n.test)]
    ok = bool(tv) and any(isinstance(s, ast.Assign) and _is_lower_clamp0(s.value) for s in tv[0].body)
    shr = [n for n in ast.walk(th) if isinstance(n, ast.If) and "shrinkage" in unparse(n.test)]
    ok = ok and all(any(isinstance(s, ast.Assign) and _is_lower_clamp0(s.value) for s in n.body) for n in shr)
    check.decide(ok, "C10-R1", "tomography object: positivity and shrinkage both end in a lower bound at 0", "", tmod.line(th),
                 fail_detail="the tomography hard constraints can return negative values under positivity")

    gram_schmidt_rules(check, repo)
    pmod = repo.module(PM)

    # ---- R3 probe normalisation algebra -----------------------------------------------------------------------------
    _, aw = repo.func(f"{PM}:ProbePixelated._apply_weights")
    d = {k: [unparse(x) for x in definitions(aw, k) if isinstance(x, ast.AST)] for k in ("probe_intensity", "intensity_norm", "current_weights", "weight_scaling")}
    ok = d["probe_intensity"] == ["torch.sum(torch.abs(torch.fft.fft2(probes, norm='ortho')).square())"] \
        and d["intensity_norm"] == ["torch.sqrt(self.mean_diffraction_intensity / probe_intensity)"]
    scale = [n for n in ast.walk(aw) if isinstance(n, ast.AugAssign) and dotted(n.target) == "probes"]
    ok = ok and len(scale) == 1 and isinstance(scale[0].op, ast.Mult) and unparse(scale[0].value) == "intensity_norm"
    check.decide(ok, "C10-R3", "_apply_weights: probes × sqrt(I_mean / P) with P the unitary-FFT intensity ⇒ total diffraction intensity = I_mean", str(d["intensity_norm"]), pmod.line(aw),
                 fail_detail=f"{d['probe_intensity']} / {d['intensity_norm']}")
    ok = d["current_weights"] == ["torch.sum(torch.abs(probes).square(), dim=(1, 2))", "current_weights / torch.sum(current_weights)"] \
        and d["weight_scaling"] == ["torch.sqrt(self.initial_probe_weights.to(self.device) / current_weights)"]
    check.decide(ok, "C10-R3", "_apply_weights: mode i × sqrt(w_i / c_i) with c the normalised current weights ⇒ mode intensities = w_i · I_mean", "", pmod.line(aw),
                 fail_detail=f"{d['current_weights']} / {d['weight_scaling']}")
    fin = [unparse(x) for x in definitions(aw, "probes") if isinstance(x, ast.AST)]
    check.decide("probes * self._to_torch(weight_scaling)[:, None, None]" in fin, "C10-R3", "_apply_weights: the per-mode scale is broadcast over the two image axes", "", pmod.line(aw),
                 fail_detail=str(fin))
    _, st = repo.func(f"{PM}:ProbePixelated.initial_probe_weights@setter")
    none_if = next((n for n in st.body if isinstance(n, ast.If) and unparse(n.test) == "weights is None"), None)
    if none_if is None:
        raise AnalysisError("initial_probe_weights setter: default dispatch not found")
    lists = [n for s_ in none_if.body for n in ast.walk(s_) if isinstance(n, ast.BinOp) and isinstance(n.op, ast.Add) and isinstance(n.left, ast.List)]
    ok = False
    if len(lists) == 1:
        l, r = lists[0].left, lists[0].right
        try:
            if isinstance(l, ast.List) and len(l.elts) == 1 and isinstance(r, ast.BinOp) and isinstance(r.op, ast.Mult) and isinstance(r.left, ast.List):
                env = {"self.num_probes": Rat.sym("n")}
                total = from_ast(l.elts[0], env) + from_ast(r.left.elts[0], env) * from_ast(r.right, env)
                ok = total.equals(Rat.const(1))
        except NotArithmetic:
            ok = False
    check.decide(ok, "C10-R3", "initial_probe_weights: the default weights sum to one for every number of modes (polynomial identity)", "", pmod.line(none_if),
                 fail_detail="the default weights do not sum to 1 identically")
    # every store reachable with user-supplied weights must be normalised by its own sum
    scfg = CFG(st)
    none_true = [n.id for n in scfg.nodes if n.kind == "branch" and n.polarity and scfg.nodes[n.test].kind == "test" and unparse(scfg.nodes[n.test].expr) == "weights is None"]
    none_false = [n.id for n in scfg.nodes if n.kind == "branch" and not n.polarity and scfg.nodes[n.test].kind == "test" and unparse(scfg.nodes[n.test].expr) == "weights is None"]
    stores = [n for n in scfg.nodes if n.kind == "stmt" and isinstance(n.stmt, ast.Assign) and dotted(n.stmt.targets[0]) == "self._initial_probe_weights"]
    user_stores = [n for n in stores if any(n.id in scfg.reachable_from(b) for b in none_false)]
    check.floor("initial_probe_weights: stores on the user path", len(user_stores), 1)
    for n in user_stores:
        v = n.stmt.value
        ok = isinstance(v, ast.BinOp) and isinstance(v.op, ast.Div) and unparse(v.right) in (f"torch.sum({unparse(v.left)})", f"{unparse(v.left)}.sum()")
        check.decide(ok, "C10-R3", "initial_probe_weights: user weights are normalised to sum to one", unparse(v)[:60], pmod.line(n.stmt),
                     fail_detail=f"on the user-supplied path the weights are stored as `{unparse(v)[:70]}`: _apply_weights assumes they sum to one, so the total "
                                 f"diffraction intensity becomes Σw · I_mean")
    ln = any(isinstance(n, ast.If) and "len(weights) != self.num_probes" in unparse(n.test) and any(isinstance(x, ast.Raise) for x in n.body) for n in ast.walk(st))
    check.decide(ln, "C10-R3", "initial_probe_weights: one weight per mode is enforced", "", pmod.line(st), fail_detail="no length check against num_probes")

    # ---- R4 per-call inputs reach the state they scale / constrain ------------------------------------------------------------------
    PT_ = "quantem.diffractive_imaging.ptychography"
    pbm, sip = repo.func(f"{PM}:ProbeBase.set_initial_probe")
    check.analysed(f"{PM}:ProbeBase.set_initial_probe", f"{PT_}:Ptychography.reconstruct")
    mparam = "mean_diffraction_intensity"
    if mparam not in func_params(sip):
        raise AnalysisError("ProbeBase.set_initial_probe: parameter mean_diffraction_intensity not found")
    ok, via, scfg = assigned_on_every_path(sip, lambda t: dotted(t) in ("self.mean_diffraction_intensity", "self._mean_diffraction_intensity"))
    from_param = all(mparam in names_in(scfg.nodes[v].stmt.value) for v in via)
    check.decide(ok and from_param, "C10-R4", "set_initial_probe stores this call's mean diffraction intensity on every path", f"{len(via)} assigning statements", pbm.line(sip),
                 fail_detail="a path through set_initial_probe keeps a previously stored mean_diffraction_intensity (or stores another value): a re-initialised probe is scaled to the old "
                             "total intensity — the probe's diffraction intensity no longer equals the dataset's mean intensity")
    tmod_, rec_ = repo.func(f"{PT_}:Ptychography.reconstruct")
    rcfg_ = CFG(rec_)
    cst = [n.id for n in rcfg_.nodes if n.kind == "stmt" and isinstance(n.stmt, ast.Assign) and any(dotted(t) == "self.constraints" for t in n.stmt.targets)]
    resets = [n for c in calls_in(rec_) if (call_name(c) or "") == "self.reset_recon" for n in rcfg_.node_containing(c)]
    if not cst or not resets:
        raise AnalysisError("Ptychography.reconstruct: `self.constraints = …` / `self.reset_recon()` not found")
    # what counts is that every path from the reset to the exit passes a store of the requested constraints (an additional, earlier store is overwritten
    # by the reset and then re-installed: harmless)
    good_ = [c_ for c_ in cst if "constraints" in names_in(rcfg_.nodes[c_].stmt.value)]
    late = [r for r in resets if not (good_ and rcfg_.all_paths_pass_through(r, rcfg_.exit, good_))]
    check.decide(not late and bool(good_), "C10-R4",
                 "reconstruct installs the requested constraints after the reset (the reset restores default constraints)", "", tmod_.line(rcfg_.nodes[cst[0]].stmt),
                 fail_detail="self.reset_recon() can run after `self.constraints = constraints`: with reset=True the constraints requested for this call are wiped before the first iteration — "
                             "e.g. identical_slices / positivity are not applied")


def _mul(e: ast.AST) -> list[ast.AST]:
    if isinstance(e, ast.BinOp) and isinstance(e.op, ast.Mult):
        return _mul(e.left) + _mul(e.right)
    return [e]


def gram_schmidt_rules(check, repo: Repo) -> None:
    """R2 on ProbeConstraints._probe_orthogonalization_constraint (also borrowed by C02)."""
    # ---- R2 Gram–Schmidt structure ------------------------------------------------------------------------------
    pmod, gs = repo.func(f"{PM}:ProbeConstraints._probe_orthogonalization_constraint")
    g = GramSchmidt(gs)  # role-based: basis list, running vector, norms and order tensors are found by definition, not by name
    titles = {
        "outer": ("Gram–Schmidt: the outer loop visits every mode of the input stack", "the outer loop does not run over all modes"),
        "projection": ("Gram–Schmidt: projection = ⟨basis_j, v⟩·basis_j with the conjugate on the BASIS vector",
                       "the inner product is not ⟨basis_j, v⟩ times the same basis vector, so modes are not mutually orthogonal for complex probes"),
        "subtract": ("Gram–Schmidt: projections are subtracted from the running vector (modified GS)", "the running vector is not updated as v − projection"),
        "all_previous": ("Gram–Schmidt: each vector is orthogonalised against ALL previously accepted modes", "the inner loop does not run over range(len(basis))"),
        "normalise": ("Gram–Schmidt: the residual is normalised by its own norm before it joins the basis", "the accepted mode is not v / ‖v‖"),
        "norms": ("Gram–Schmidt: the original per-mode norms are taken from the input stack over the last two axes", "no sqrt(Σ|input|², dim=(-2,-1)) is kept"),
        "aligned": ("Gram–Schmidt: the original norm of the SAME index is restored (norms and stack are in one index order when multiplied)",
                    "restoring the norms after the sort pairs mode shapes with the wrong intensities — the multiset survives but the per-mode intensity does not"),
        "restored": ("Gram–Schmidt: the returned stack carries the restored norms", "the per-mode intensities of the input are lost"),
        "sorted": ("Gram–Schmidt returns the stack gathered by the sort order", "the result is not sorted"),
        "key": ("Gram–Schmidt: the sort key is the restored per-mode intensity (or the original norms), descending",
                "sorting by another key (or ascending) leaves the modes out of descending-intensity order"),
        "one_order": ("Gram–Schmidt: real and imaginary parts are gathered from one stack with one order tensor", "the recombined stack mixes different modes"),
    }
    for k, (ok, detail, node) in g.facts.items():
        title, fail = titles[k]
        check.decide(ok, "C10-R2", title, detail, pmod.line(node), fail_detail=f"{detail}: {fail}", definite=True)      # verdict of the abstract interpreter
    check.floor("Gram–Schmidt facts", len(g.facts), 11)

MANIFEST = {
    "text": "Decides the admissibility structure for all raw parameter values: complex objects are clamp(|obj|, 0, 1) × exp(i·real) "
            "(modulus ≤ 1), pure-phase objects the literal 1 × exp(i·real) (modulus 1), potentials under positivity end in an "
            "outermost clamp at 0; afterwards only the [0,1] FoV mask, optional smoothing (excluded by the quantifier) and slice "
            "tying as the last write occur; Gram–Schmidt conjugates the basis vector, subtracts from the running vector against all "
            "accepted modes, normalises by the residual's own norm, restores the original norm of the same index BEFORE the "
            "descending intensity sort and gathers re/im with one order tensor; the probe is scaled by sqrt(I/P) and sqrt(w/c) "
            "with weights that sum to one (polynomial identity for the default, explicit normalisation for user weights).",
    "note": "Not decided: numerical orthogonality for nearly dependent modes, the smoothing filters, amplitude idempotence with "
            "fractional FoV masks (the mask multiplies complex objects twice — advisory).",
    "technique": "value-kind structure (clamp bounds, powers of i) + role/sequence agreement + polynomial identities (AST)",
}
MANIFEST["text"] += ' Gram–Schmidt is decided by an abstract interpretation of the routine (basis list, running vector, norms, sort key and order tensors found by definition, not by name): conjugate on the basis vector, subtraction from the running vector, all previous modes, own-norm normalisation, norms restored in the same index order before/with the sort, descending sort on restored intensity or original norms, one order tensor for real and imaginary parts.'
MANIFEST["text"] += ' R1: redundant earlier slice ties are allowed; the last write before the return must be the tie.'
MANIFEST["text"] += ' R5 (coupled): the probe getter applies the constraints to the current parameter — a memo keyed on data_ptr/_version is sound only without writes through `.data`.'
