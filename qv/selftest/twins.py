"""AST-computed behaviour-preserving twins of the current tree.

  rename   — alpha-rename every local variable of every function in a file (parameters, globals,
             attributes and keyword names are untouched); the file is re-emitted with ast.unparse,
             so comments and formatting are lost as well (covers `ruff format`-style churn).
  reformat — re-emit the file with ast.unparse only.

A rule that keys on a local's spelling must answer such a twin with exit 2 (idiom not recognised)
at worst — never with a VIOLATION.
"""
from __future__ import annotations

import ast
import builtins
import keyword

BUILTINS = set(dir(builtins)) | set(keyword.kwlist)


def _locals_of(fn: ast.AST) -> set[str]:
    """Names bound inside fn (any nesting level of comprehensions/loops), excluding parameters of
    fn itself, global/nonlocal declarations and nested function/class names."""
    params = set()
    a = fn.args
    for x in a.posonlyargs + a.args + a.kwonlyargs:
        params.add(x.arg)
    if a.vararg:
        params.add(a.vararg.arg)
    if a.kwarg:
        params.add(a.kwarg.arg)
    declared = set()
    bound = set()
    nested_params = set()

    def walk(node, top=False):
        for ch in ast.iter_child_nodes(node):
            if isinstance(ch, (ast.Global, ast.Nonlocal)):
                declared.update(ch.names)
            if isinstance(ch, (ast.FunctionDef, ast.AsyncFunctionDef, ast.Lambda)):
                aa = ch.args
                for x in aa.posonlyargs + aa.args + aa.kwonlyargs:
                    nested_params.add(x.arg)
                if aa.vararg:
                    nested_params.add(aa.vararg.arg)
                if aa.kwarg:
                    nested_params.add(aa.kwarg.arg)
                walk(ch)
                continue
            if isinstance(ch, ast.ClassDef):
                continue
            if isinstance(ch, ast.Name) and isinstance(ch.ctx, ast.Store):
                bound.add(ch.id)
            if isinstance(ch, ast.ExceptHandler) and ch.name:
                bound.add(ch.name)
            if isinstance(ch, (ast.Import, ast.ImportFrom)):
                for al in ch.names:
                    declared.add((al.asname or al.name).split(".")[0])
            walk(ch)
    walk(fn)
    return {n for n in bound if n not in params and n not in declared and n not in nested_params
            and n not in BUILTINS and not n.startswith("__")}


class _Renamer(ast.NodeTransformer):
    def __init__(self, mapping):
        self.mapping = mapping

    def visit_Name(self, node):
        if node.id in self.mapping:
            node.id = self.mapping[node.id]
        return node

    def visit_ExceptHandler(self, node):
        if node.name in self.mapping:
            node.name = self.mapping[node.name]
        self.generic_visit(node)
        return node

    def visit_ClassDef(self, node):
        return node  # do not descend into nested classes


def rename_locals(source: str, suffix: str = "_q") -> str:
    tree = ast.parse(source)

    def top_functions(node):
        for ch in ast.iter_child_nodes(node):
            if isinstance(ch, (ast.FunctionDef, ast.AsyncFunctionDef)):
                yield ch
            elif isinstance(ch, ast.ClassDef):
                yield from top_functions(ch)
            elif isinstance(ch, (ast.If, ast.Try, ast.With)):
                yield from top_functions(ch)
    for fn in top_functions(tree):
        loc = _locals_of(fn)
        if not loc:
            continue
        # a local that shadows a module-level name used as a callee elsewhere in the function is skipped
        mapping = {n: n + suffix for n in loc}
        _Renamer(mapping).visit(fn)
    ast.fix_missing_locations(tree)
    return ast.unparse(tree) + "\n"


def reformat(source: str) -> str:
    return ast.unparse(ast.parse(source)) + "\n"
