"""AST-computed behaviour-preserving twins of the current tree.

  rename   — alpha-rename every local variable of every function in a file (parameters, globals,
             attributes and keyword names are untouched); the file is re-emitted with ast.unparse,
             so comments and formatting are lost as well (covers `ruff format`-style churn).
  reformat — re-emit the file with ast.unparse only.

A rule that keys on a local's spelling must answer such a twin with exit 2 (idiom not recognised)
at worst — never with a VIOLATION.
"""
from __future__ import annotations

import ast
import builtins
import keyword

BUILTINS = set(dir(builtins)) | set(keyword.kwlist)


from ..core.alpha import locals_of as _locals_of  # one definition of 'local' for the twin generator and the alpha-normaliser


class _Renamer(ast.NodeTransformer):
    def __init__(self, mapping):
        self.mapping = mapping

    def visit_Name(self, node):
        if node.id in self.mapping:
            node.id = self.mapping[node.id]
        return node

    def visit_ExceptHandler(self, node):
        if node.name in self.mapping:
            node.name = self.mapping[node.name]
        self.generic_visit(node)
        return node

    def visit_ClassDef(self, node):
        return node  # do not descend into nested classes


def rename_locals(source: str, suffix: str = "_q") -> str:
    tree = ast.parse(source)

    def top_functions(node):
        for ch in ast.iter_child_nodes(node):
            if isinstance(ch, (ast.FunctionDef, ast.AsyncFunctionDef)):
                yield ch
            elif isinstance(ch, ast.ClassDef):
                yield from top_functions(ch)
            elif isinstance(ch, (ast.If, ast.Try, ast.With)):
                yield from top_functions(ch)
    for fn in top_functions(tree):
        loc = _locals_of(fn)
        if not loc:
            continue
        # a local that shadows a module-level name used as a callee elsewhere in the function is skipped
        mapping = {n: n + suffix for n in loc}
        _Renamer(mapping).visit(fn)
    ast.fix_missing_locations(tree)
    return ast.unparse(tree) + "\n"


def reformat(source: str) -> str:
    return ast.unparse(ast.parse(source)) + "\n"
