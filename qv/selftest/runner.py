"""Thorough tier, part 1: test the checker both ways on scratch copies of the CURRENT tree.

  mutants — every confirmed seeded change under /verif/seeded that this property's check is recorded
            (seeded/INDEX.json) to detect is applied to a scratch copy of /repo/src; the check must
            report a violation that is not reported on the unmodified tree.  A recorded mutant that
            goes undetected means the checker lost power: ANALYSIS-ERROR (exit 2).  A patch that no
            longer applies to the current tree is skipped and counted.
  twins   — behaviour-preserving rewrites: (a) every confirmed refactoring under /verif/twins written for this property by an
            independent sub-agent (extract helper, merge branches, vectorise, library call, hoist …; each passes the test suite and
            an old-versus-new equivalence demonstration); (b) generated rewrites of every module the check analysed (alpha-rename
            of all locals + ast.unparse; ast.unparse only).  A twin must never produce a violation that the
            unmodified tree does not produce; one that does is a false alarm of the checker:
            ANALYSIS-ERROR (exit 2).  "Idiom not recognised" (exit 2 of the inner run) is allowed.

Scratch copies live under /dev/shm (or $TMPDIR), never under /repo or /verif, and are removed as soon
as the variant has been analysed.  Nothing of /repo is executed.
"""
from __future__ import annotations

import json
import os
import shutil
import subprocess
import sys
import tempfile
from concurrent.futures import ThreadPoolExecutor

from ..core.repo import repo_root
from .twins import reformat, rename_locals

ROOT = os.path.dirname(os.path.dirname(os.path.dirname(os.path.abspath(__file__))))
SEEDED = os.path.join(ROOT, "seeded")
TWINS = os.path.join(ROOT, "twins")  # confirmed behaviour-preserving refactorings written by independent sub-agents (patch.diff, demo.py, meta.json)
PY = "/venv/bin/python" if os.path.exists("/venv/bin/python") else sys.executable


def _scratch_base() -> str:
    for d in (os.environ.get("QV_SCRATCH"), "/dev/shm", tempfile.gettempdir()):
        if d and os.path.isdir(d) and os.access(d, os.W_OK):
            return d
    return tempfile.gettempdir()


def _copy_tree() -> str:
    d = tempfile.mkdtemp(prefix="qv-selftest-", dir=_scratch_base())
    shutil.copytree(os.path.join(repo_root(), "src"), os.path.join(d, "src"),
                    ignore=shutil.ignore_patterns("__pycache__", "*.pyc"))
    return d


def _run_check(pid: str, root: str) -> dict:
    rj = os.path.join(root, "result.json")
    env = dict(os.environ, QV_REPO=root, QV_NO_EVIDENCE="1", PYTHONDONTWRITEBYTECODE="1",
               QV_REPLAY_DIR=os.path.join(root, "replay"), QV_RESULT_JSON=rj)
    env.pop("VERIF_TIER", None)
    r = subprocess.run([PY, "-m", "qv.main", pid, "--tier", "quick"], cwd=ROOT, env=env, capture_output=True, text=True)
    try:
        with open(rj, "r", encoding="utf-8") as fh:
            res = json.load(fh)
    except Exception:
        res = {"exit": r.returncode, "violated": [], "errors": [f"no result file; stdout tail: {r.stdout[-300:]}"]}
    res["exit"] = r.returncode
    return res


def _variant(pid: str, kind: str, arg: str, base_keys: set, files: list[str]) -> dict:
    out = {"kind": kind, "name": arg}
    root = _copy_tree()
    try:
        if kind in ("mutant", "twin-refactor"):
            patch = os.path.join(SEEDED if kind == "mutant" else TWINS, arg, "patch.diff")
            r = subprocess.run(["git", "apply", "--whitespace=nowarn", patch], cwd=root, capture_output=True, text=True)
            if r.returncode:
                r = subprocess.run(["patch", "-p1", "--no-backup-if-mismatch", "-s", "-i", patch], cwd=root, capture_output=True, text=True)
            if r.returncode:
                out["status"] = "inapplicable"
                out["detail"] = (r.stderr or r.stdout).strip()[:200]
                return out
        else:
            for rel in files:
                p = os.path.join(root, rel)
                if not os.path.exists(p):
                    continue
                with open(p, "r", encoding="utf-8") as fh:
                    src = fh.read()
                new = rename_locals(src) if kind == "twin-rename" else reformat(src)
                with open(p, "w", encoding="utf-8") as fh:
                    fh.write(new)
        res = _run_check(pid, root)
        new_v = [v for v in res.get("violated", []) if (v[0], v[1]) not in base_keys]
        out["inner_exit"] = res["exit"]
        out["new_violations"] = [[v[0], v[1]] for v in new_v][:5]
        out["inner_errors"] = len(res.get("errors", []))
        if kind == "mutant":
            out["status"] = "detected" if new_v else ("not-recognised" if res["exit"] == 2 else "missed")
        else:
            out["status"] = "false-alarm" if new_v else ("silent" if res["exit"] in (0, 1) and not res.get("errors") else "silent (idiom not recognised)")
        return out
    finally:
        shutil.rmtree(root, ignore_errors=True)


def seeds_for(pid: str) -> list[str]:
    idx = os.path.join(SEEDED, "INDEX.json")
    if not os.path.exists(idx):
        return []
    with open(idx, "r", encoding="utf-8") as fh:
        table = json.load(fh)
    return sorted(n for n, e in table.items() if pid in e.get("detected_by", []) and os.path.isdir(os.path.join(SEEDED, n)))


def run_selftest(check, repo, jobs: int = 16) -> None:
    pid = check.pid
    base_keys = {(o.rule, o.construct) for o in check.obligations if o.verdict == "violated"}
    files = sorted({repo.modules[q.split(":")[0]].rel for q in check.functions_analysed if q.split(":")[0] in repo.modules})
    refactors = sorted(n for n in (os.listdir(TWINS) if os.path.isdir(TWINS) else []) if n.startswith(pid + "-") and os.path.exists(os.path.join(TWINS, n, "patch.diff")))
    variants = [("mutant", n) for n in seeds_for(pid)] + [("twin-refactor", n) for n in refactors] \
        + [("twin-rename", "all analysed modules"), ("twin-reformat", "all analysed modules")]
    # one twin per analysed module as well: a false alarm is then attributable to one file
    for rel in files:
        variants.append(("twin-rename", rel))
    with ThreadPoolExecutor(jobs) as ex:
        results = list(ex.map(lambda v: _variant(pid, v[0], v[1], base_keys, files if v[1] == "all analysed modules" else [v[1]]), variants))
    mut = [r for r in results if r["kind"] == "mutant"]
    tw = [r for r in results if r["kind"] != "mutant"]
    for r in mut:
        if r["status"] in ("missed", "not-recognised"):
            check.error(f"selftest: recorded mutant {r['name']} is no longer detected ({r['status']}): the checker lost power")
    for r in tw:
        if r["status"] == "false-alarm":
            check.error(f"selftest: behaviour-preserving {r['kind']} of {r['name']} raises {r['new_violations']}: false alarm of the checker")
    check.extra["selftest"] = {
        "mutants": len(mut), "mutants_detected": len([r for r in mut if r["status"] == "detected"]),
        "mutants_inapplicable": len([r for r in mut if r["status"] == "inapplicable"]),
        "twins": len(tw), "twins_silent": len([r for r in tw if r["status"].startswith("silent")]),
        "twins_fully_recognised": len([r for r in tw if r["status"] == "silent"]),
        "results": results,
        "rule": "mutant detected = a (rule, construct) violation that the unmodified tree does not have; twin silent = no such violation",
    }
    check.note(f"selftest: {len(mut)} recorded mutants, {check.extra['selftest']['mutants_detected']} detected, "
               f"{check.extra['selftest']['mutants_inapplicable']} inapplicable; {len(tw)} twins, {check.extra['selftest']['twins_silent']} silent")
