"""Launcher: python -m qv.main <ID> [--tier quick|thorough] [--replay PATH]"""
from __future__ import annotations

import argparse
import importlib
import json
import os
import sys
import traceback

from .core.repo import AnalysisError, Repo
from .core.report import Check

RULE_MODULES = {f"C{i:02d}": f"qv.rules.c{i:02d}" for i in range(1, 21)}


def run_one(pid: str, tier: str, replay: str | None = None) -> int:
    modname = RULE_MODULES.get(pid)
    if modname is None:
        print(f"ANALYSIS-ERROR property={pid} unknown property id")
        return 2
    try:
        mod = importlib.import_module(modname)
    except ModuleNotFoundError:
        print(f"ANALYSIS-ERROR property={pid} no rule module {modname}")
        return 2
    check = Check(pid, tier, getattr(mod, "EXPLANATION", ""))
    try:
        repo = Repo()
        mod.run(check, repo)
        if tier == "thorough" and hasattr(mod, "run_thorough"):
            mod.run_thorough(check, repo)
    except AnalysisError as exc:
        check.error(f"{type(exc).__name__}: {exc}")
    except Exception as exc:  # a crash is an analysis error, never a verdict
        tb = traceback.format_exc(limit=6)
        check.error(f"checker crashed: {type(exc).__name__}: {exc}\n{tb}")
    if replay:
        try:
            with open(replay, "r", encoding="utf-8") as fh:
                rp = json.load(fh)
        except Exception as exc:
            print(f"ANALYSIS-ERROR property={pid} cannot read replay file: {exc}")
            return 2
        key = (rp.get("rule"), rp.get("construct"))
        hits = [o for o in check.obligations if (o.rule, o.construct) == key]
        check.obligations = hits
        if not hits:
            print(f"REPLAY property={pid} {key[0]} {key[1]}: construct no longer reported (obligation absent)")
        code = check.finish(write_evidence=False)
        return code
    return check.finish()


def main(argv=None) -> int:
    ap = argparse.ArgumentParser()
    ap.add_argument("pid")
    ap.add_argument("--tier", default=os.environ.get("VERIF_TIER", "quick"), choices=["quick", "thorough"])
    ap.add_argument("--replay", default=None)
    a = ap.parse_args(argv)
    return run_one(a.pid, a.tier, a.replay)


if __name__ == "__main__":
    try:
        rc = main()
    except SystemExit:
        raise
    except BaseException as exc:  # noqa
        print(f"ANALYSIS-ERROR launcher crashed: {type(exc).__name__}: {exc}")
        rc = 2
    sys.exit(rc)
