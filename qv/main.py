"""Launcher: python -m qv.main <ID> [--tier quick|thorough] [--replay PATH]"""
from __future__ import annotations

import argparse
import importlib
import json
import os
import sys
import traceback

from .core.repo import AnalysisError, Repo
from .core.report import Check

RULE_MODULES = {f"C{i:02d}": f"qv.rules.c{i:02d}" for i in range(1, 21)}
LOCAL_EDIT = 4  # statements: edits up to this size inside a recorded function count as edits OF the matched expression (see withhold_unrecognised)


def _enclosing_functions(repo: Repo, rel: str, line: int):
    """(module name, qualpath, node) of every function of file `rel` that spans `line`."""
    import ast
    out = []
    for m in repo.modules.values():
        if m.rel != rel:
            continue

        def rec(node, path):
            for ch in ast.iter_child_nodes(node):
                if isinstance(ch, (ast.FunctionDef, ast.AsyncFunctionDef)):
                    q = path + [ch.name]
                    if ch.lineno <= line <= (ch.end_lineno or ch.lineno):
                        out.append((m.name, ".".join(q), ch))
                    rec(ch, q)
                elif isinstance(ch, ast.ClassDef):
                    rec(ch, path + [ch.name])
                elif isinstance(ch, (ast.If, ast.Try, ast.With, ast.For, ast.While)):
                    rec(ch, path)
        rec(m.tree, [])
    return out


def withhold_unrecognised(check: Check, pid: str) -> None:
    """A violation located in a function whose *keyed locals* (the variable spellings this
    property's matching rules depend on, frozen in keyed_locals.json) no longer exist is withheld:
    the idiom is not recognised any more, which is an analysis error, never a property alarm."""
    import ast
    path = os.path.join(os.path.dirname(os.path.abspath(__file__)), "rules", "keyed_locals.json")
    if not os.path.exists(path):
        return
    with open(path, "r", encoding="utf-8") as fh:
        table = json.load(fh).get(pid, {})
    if not table or not any(o.verdict == "violated" for o in check.obligations):
        return
    repo = Repo()
    cache: dict = {}
    from .core.keyed import slice_idents
    analysed = set(check.functions_analysed)

    def current_names(node):
        return {n.id for n in ast.walk(node) if isinstance(n, ast.Name)} | {a.arg for a in ast.walk(node) if isinstance(a, ast.arg)}

    known_keys = {(e["rule"], e["construct"]) for e in getattr(check, "known", []) if e.get("status") == "known"}
    for ob in check.obligations:
        if ob.verdict != "violated" or (ob.rule, ob.construct) in known_keys:
            continue  # a listed known finding is expected as it is: never demoted to an analysis error
        relevant = slice_idents(list(ob.src))  # None: unknown → every keyed name counts
        cands = []  # (key in table, node)
        if ":" in ob.where:
            rel, _, ln = ob.where.rpartition(":")
            try:
                for mname, q, node in _enclosing_functions(repo, rel, int(ln)):
                    cands.append((f"{mname}:{q}", node))
            except ValueError:
                pass
        n_where = len(cands)
        for q in analysed:
            if q in table and not any(k == q for k, _ in cands):
                try:
                    cands.append((q, repo.func(q)[1]))
                except Exception:
                    continue
        if os.environ.get("QV_GATE", "local") != "off" and not getattr(ob, "definite", False):
            # Idiom-recognising rules are written against the recorded functions (qv/rules/pinned_shapes.json).  Their verdict is trusted while the
            # function the verdict points at is recognisably that function: at most LOCAL_EDIT statements differ (a local edit — then the matched
            # construct itself was changed).  In a function that has been RESTRUCTURED (helper extracted, branches merged, loop vectorised, …) a
            # mismatch only shows that the code is written differently; it is reported as "not recognised" (exit 2), never as a violation.  Verdicts
            # of the semantic analyses (recorded with definite=True: kind clashes, path properties, normal-form identities, model agreement) are exempt.
            from .core.alpha import edit_distance, pinned_table, statement_digests
            enclosing = [(k, n) for k, n in cands[:n_where]]
            far = []
            newlocals: dict = {}
            for key, node in enclosing:
                e = pinned_table().get(key)
                if e is None and "." in key.split(":")[-1]:
                    # a closure / nested function: judged by the recorded function that contains it
                    pk = key.rsplit(".", 1)[0]
                    while pk not in pinned_table() and "." in pk.split(":")[-1]:
                        pk = pk.rsplit(".", 1)[0]
                    pe = pinned_table().get(pk)
                    if pe is not None:
                        try:
                            e, node = pe, repo.func(pk)[1]
                        except Exception:
                            e = None
                d = edit_distance(e["stmts"], statement_digests(node)) if e and "stmts" in e else None
                if d is None or d > (0 if os.environ.get("QV_GATE") == "strict" else LOCAL_EDIT):
                    far.append((key, d))
                elif d and e and "locals" in e and os.environ.get("QV_GATE", "local") != "nolocals":
                    # a local edit that INTRODUCES a local name the recorded function does not have (a new temporary, a cached value, an unpacked helper result) has
                    # re-expressed part of the computation: an idiom that no longer matches is then "written differently", not evidence of a defect
                    from .core.alpha import locals_of
                    fresh = sorted(set(locals_of(node)) - set(e["locals"]))
                    if fresh:
                        far.append((key, d))
                        newlocals[key] = fresh
            if not far and enclosing and all((pinned_table().get(k) or {}).get("stmts") is not None and edit_distance(pinned_table()[k]["stmts"], statement_digests(n)) == 0
                                             for k, n in enclosing if k in pinned_table()) and any(k in pinned_table() for k, _ in enclosing):
                # the function the verdict points at is UNTOUCHED: the mismatch stems from another function this property analyses.  If that other function was
                # restructured, the verdict is a statement about how it is written now, not about a local edit — same treatment.
                for q in sorted(analysed):
                    e2 = pinned_table().get(q)
                    if e2 is None or "stmts" not in e2 or any(q == k for k, _ in enclosing):
                        continue
                    try:
                        d2 = edit_distance(e2["stmts"], statement_digests(repo.func(q)[1]))
                    except Exception:
                        d2 = None
                    if d2 is None or d2 > LOCAL_EDIT:
                        far.append((q, d2))
                        break
            if far:
                from .core.keyed import textual_matches
                texts = textual_matches(list(ob.src))
                k, d = far[0]
                ob.verdict = "withheld"
                check.error(f"{ob.rule} not recognised: {k.split(':')[-1]} "
                            + ((f"introduces the local name(s) {newlocals[k]} (part of the computation is re-expressed through them)" if k in newlocals else
                                f"differs from the recorded function in {d} statements") if d is not None else "is not a recorded function")
                            + ("" if k in newlocals else " (restructured, not a local edit)")
                            + (f"; the rule matches expression text such as {texts[0][:50]!r}" if texts else "")
                            + f" — a different way of writing the code is not evidence of different behaviour; withheld (not a verdict): {ob.construct}")
                continue
        for key, node in cands:
            keyed = table.get(key)
            if not keyed:
                continue
            if key not in cache:
                present = current_names(node)
                cache[key] = sorted(k for k in keyed if k not in present)
            missing = [k for k in cache[key] if relevant is None or k in relevant]
            if missing:
                ob.verdict = "withheld"
                check.error(f"{ob.rule} idiom not recognised in {key} — this rule is keyed on local name(s) {missing} that no longer exist; "
                            f"withheld (not a verdict): {ob.construct}")
                break


def run_one(pid: str, tier: str, replay: str | None = None) -> int:
    modname = RULE_MODULES.get(pid)
    if modname is None:
        print(f"ANALYSIS-ERROR property={pid} unknown property id")
        return 2
    try:
        mod = importlib.import_module(modname)
    except ModuleNotFoundError:
        print(f"ANALYSIS-ERROR property={pid} no rule module {modname}")
        return 2
    check = Check(pid, tier, getattr(mod, "EXPLANATION", ""))
    try:
        repo = Repo()
        mod.run(check, repo)
        if tier == "thorough" and hasattr(mod, "run_thorough"):
            mod.run_thorough(check, repo)
    except AnalysisError as exc:
        check.error(f"{type(exc).__name__}: {exc}")
    except Exception as exc:  # a crash is an analysis error, never a verdict
        tb = traceback.format_exc(limit=6)
        check.error(f"checker crashed: {type(exc).__name__}: {exc}\n{tb}")
    try:
        withhold_unrecognised(check, pid)
    except Exception as exc:
        check.error(f"keyed-locals guard crashed: {type(exc).__name__}: {exc}")
    if tier == "thorough" and not os.environ.get("QV_NO_SELFTEST"):
        try:
            from .selftest.runner import run_selftest
            run_selftest(check, Repo())
        except Exception as exc:
            check.error(f"selftest crashed: {type(exc).__name__}: {exc}\n{traceback.format_exc(limit=4)}")
    if replay:
        try:
            with open(replay, "r", encoding="utf-8") as fh:
                rp = json.load(fh)
        except Exception as exc:
            print(f"ANALYSIS-ERROR property={pid} cannot read replay file: {exc}")
            return 2
        key = (rp.get("rule"), rp.get("construct"))
        hits = [o for o in check.obligations if (o.rule, o.construct) == key]
        check.obligations = hits
        if not hits:
            print(f"REPLAY property={pid} {key[0]} {key[1]}: construct no longer reported (obligation absent)")
        code = check.finish(write_evidence=False)
        return code
    return check.finish()


def main(argv=None) -> int:
    ap = argparse.ArgumentParser()
    ap.add_argument("pid")
    ap.add_argument("--tier", default=os.environ.get("VERIF_TIER", "quick"), choices=["quick", "thorough"])
    ap.add_argument("--replay", default=None)
    a = ap.parse_args(argv)
    return run_one(a.pid, a.tier, a.replay)


if __name__ == "__main__":
    try:
        rc = main()
    except SystemExit:
        raise
    except BaseException as exc:  # noqa
        print(f"ANALYSIS-ERROR launcher crashed: {type(exc).__name__}: {exc}")
        rc = 2
    sys.exit(rc)
