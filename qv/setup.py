"""setup_cmd: validate the framework from files on disk only (no network, no build)."""
import importlib
import sys

from .core.report import load_known_findings
from .main import RULE_MODULES


def main() -> int:
    load_known_findings()
    n = 0
    for pid, modname in sorted(RULE_MODULES.items()):
        try:
            importlib.import_module(modname)
            n += 1
        except ModuleNotFoundError:
            pass
    print(f"qv setup ok: python {sys.version.split()[0]}, {n} rule modules importable")
    return 0


if __name__ == "__main__":
    sys.exit(main())
