#!/bin/sh
# usage: sweep.sh  → HEAD + rename twin + seeds
cd /verif
/venv/bin/python tools/make_twin.py rename /dev/shm/tw >/dev/null
for i in $(seq -w 1 20); do QV_NO_EVIDENCE=1 ./check C$i > /dev/shm/h.C$i.log 2>&1 || echo "HEAD C$i rc=$?"; QV_REPO=/dev/shm/tw QV_NO_EVIDENCE=1 QV_REPLAY_DIR=/dev/shm/twr ./check C$i > /dev/shm/tw.C$i.log 2>&1; rc=$?; v=$(grep -c '^VIOLATION' /dev/shm/tw.C$i.log); echo "twin C$i rc=$rc viol=$v"; done 2>&1 | grep -v "viol=0"
echo "twin exit codes: $(for i in $(seq -w 1 20); do tail -1 /dev/shm/tw.C$i.log | grep -o 'analysis-errors=[0-9]*' | cut -d= -f2; done | tr '\n' ' ')"
tools/run_seeded.py --all-checks -j 12 2>&1 | grep -E "ERROR|missed|seeded changes" | cut -c1-260
