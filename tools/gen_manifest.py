#!/venv/bin/python
"""Regenerate /verif/MANIFEST.json from the MANIFEST dict of every rule module."""
import importlib
import json
import os
import sys

ROOT = os.path.dirname(os.path.dirname(os.path.abspath(__file__)))
sys.path.insert(0, ROOT)
from qv.main import RULE_MODULES  # noqa: E402

NOT_BUILT = "static check not built yet (planned in DESIGN.md §8); no clause is claimed until it is"

checks, na = [], []
for pid, modname in sorted(RULE_MODULES.items()):
    try:
        mod = importlib.import_module(modname)
        meta = getattr(mod, "MANIFEST", None)
    except ModuleNotFoundError:
        meta = None
    if not meta:
        na.append({"property_id": pid, "reason": NOT_BUILT})
        continue
    if meta.get("not_applicable"):
        na.append({"property_id": pid, "reason": meta["not_applicable"]})
        continue
    checks.append({
        "property_id": pid,
        "quick_cmd": f"./check {pid} --tier quick",
        "thorough_cmd": f"./check {pid} --tier thorough",
        "evidence_file": f"/verif/evidence/{pid}.json",
        "replay_cmd_template": f"./check {pid} --replay {{path}}",
        "engine": "qv",
        "level_claimed": {"category": "other", "text": meta["text"], "design_ref": f"DESIGN.md §2 {pid}"},
        "level_note": meta["note"],
        "technique": meta["technique"],
    })

manifest = {
    "version": 1,
    "setup_cmd": "sh -c 'if [ -x /venv/bin/python ]; then PY=/venv/bin/python; else PY=python3; fi; PYTHONDONTWRITEBYTECODE=1 $PY -m qv.setup'",
    "hooks": {
        "guard": "QUANTEM_VERIF",
        "enable": "none needed: the checks are static and read /repo's source; no instrumentation exists in the repository",
        "baseline_off_cmd": "cd /repo && /venv/bin/python -m pytest -ra -q -p no:cacheprovider --timeout=900 --continue-on-collection-errors",
        "source_commits": [],
        "add_only": True,
    },
    "engines": [{
        "name": "qv", "path": "/verif/qv",
        "serves_properties": [c["property_id"] for c in checks],
        "kind_free_text": "repository-specific static analysis on Python ast: symbol/MRO index, statement CFG with "
                          "exception edges and dominators, codec-schema extraction, sibling agreement, algebraic "
                          "normal forms, term-table extraction; never imports or runs quantem",
    }],
    "checks": checks,
    "not_applicable": na,
    "notes": "exit 0 = all static obligations hold (KNOWN-FINDING lines for recorded defects); exit 1 = VIOLATION; "
             "exit 2 = ANALYSIS-ERROR (anchor vanished / idiom not recognised / floor not met) — never a silent pass. "
             "QV_REPO overrides the analysed tree (default /repo). See DESIGN.md.",
}
with open(os.path.join(ROOT, "MANIFEST.json"), "w") as fh:
    json.dump(manifest, fh, indent=1)
    fh.write("\n")
print(f"MANIFEST.json: {len(checks)} checks, {len(na)} not_applicable")
