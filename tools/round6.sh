#!/bin/bash
# round6.sh ID... : confirm the round-6 seeds of the given properties (both k) in parallel, then run the property's check on each.
export SEEDROOT=/tmp/seedout6 SEEDTAG=r6-
for id in "$@"; do for k in 1 2; do echo "$id $k"; done; done | xargs -P 8 -L 1 /verif/tools/confirm_seed.sh 
for id in "$@"; do for k in 1 2; do n=$id-r6-$k; echo "== $n"; [ -d /verif/seeded/$n ] && /verif/tools/try_seed.sh $n | cut -c1-300 | head -8; done; done
