#!/bin/bash
# reconfirm_seeds.sh [-j N] : re-run every kept demonstration against /repo HEAD (scratch worktrees): each seeded change must still make its
# demo fail and each twin must still make its demo pass.  Prints one line per entry that no longer does.
J=${2:-8}
one() {
  C=$1; N=$2; D=/verif/$C/$N; WT=/dev/shm/reconf-$C-$N
  rm -rf $WT; git -C /repo worktree add --detach $WT HEAD >/dev/null 2>&1 || { echo "$C/$N worktree failed"; return; }
  if git -C $WT apply --3way $D/patch.diff >/dev/null 2>&1; then
    ( cd $WT; PYTHONPATH=$WT/src PYTHONDONTWRITEBYTECODE=1 timeout 600 /venv/bin/python $D/demo.py >/dev/null 2>&1 ); rc=$?
    if [ $C = seeded ] && [ $rc = 0 ]; then echo "STALE seeded/$N: demo passes with the patch applied"; fi
    if [ $C = twins ] && [ $rc != 0 ]; then echo "STALE twins/$N: demo fails (rc=$rc) with the patch applied"; fi
  else echo "$C/$N: patch does not apply"; fi
  git -C /repo worktree remove --force $WT >/dev/null 2>&1; rm -rf $WT
}
export -f one
( for n in $(ls /verif/seeded | grep -v INDEX); do echo "seeded $n"; done; for n in $(ls /verif/twins); do [ -d /verif/twins/$n ] && echo "twins $n"; done ) | xargs -P $J -L 1 bash -c 'one $0 $1'
echo "reconfirm done"
