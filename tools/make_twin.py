#!/venv/bin/python
"""make_twin.py <rename|reformat> <dest>: write a behaviour-preserving twin of /repo/src (all modules) to <dest>/src."""
import os
import shutil
import sys

ROOT = os.path.dirname(os.path.dirname(os.path.abspath(__file__)))
sys.path.insert(0, ROOT)
from qv.selftest.twins import reformat, rename_locals  # noqa: E402

kind, dest = sys.argv[1], sys.argv[2]
src = os.path.join(os.environ.get("QV_REPO", "/repo"), "src")
shutil.rmtree(dest, ignore_errors=True)
shutil.copytree(src, os.path.join(dest, "src"), ignore=shutil.ignore_patterns("__pycache__", "*.pyc"))
n = 0
for dp, _, fns in os.walk(os.path.join(dest, "src")):
    for fn in fns:
        if fn.endswith(".py"):
            p = os.path.join(dp, fn)
            text = open(p, encoding="utf-8").read()
            new = rename_locals(text) if kind == "rename" else reformat(text)
            open(p, "w", encoding="utf-8").write(new)
            n += 1
print(f"{kind} twin of {n} files in {dest}")
