#!/bin/bash
# Re-express every seeded patch against /repo HEAD (after fix: commits) so that a plain `git apply` / `patch -p1` works on a copy of the current tree.
WT=/dev/shm/seedrebase; rm -rf $WT; git -C /repo worktree add --detach $WT HEAD >/dev/null 2>&1 || exit 1
trap 'git -C /repo worktree remove --force $WT >/dev/null 2>&1; rm -rf $WT' EXIT
for d in /verif/seeded/*/ /verif/twins/*/; do
  n=$(basename $d); [ -f $d/patch.diff ] || continue
  git -C $WT reset -q --hard; git -C $WT clean -fdq
  if git -C $WT apply --check $d/patch.diff 2>/dev/null; then continue; fi
  if git -C $WT apply --3way $d/patch.diff >/dev/null 2>&1 && [ -z "$(git -C $WT diff --name-only --diff-filter=U)" ]; then
    git -C $WT reset -q; git -C $WT diff > $d/patch.diff.new
    if [ -s $d/patch.diff.new ]; then mv $d/patch.diff.new $d/patch.diff; echo "rebased $n"; else rm -f $d/patch.diff.new; echo "EMPTY $n"; fi
  else echo "CONFLICT $n"; fi
done
