#!/venv/bin/python
"""Generate qv/rules/keyed_locals.json: for every rule module, the local-variable spellings of
repository functions that the module's *matching* strings depend on (strings used in comparisons,
membership tests and definitions(...) look-ups — not prose).  At run time a violation located in a
function whose keyed locals have vanished is withheld and reported as an analysis error instead
(the idiom is no longer recognised), so a behaviour-preserving rename can never raise a property
alarm.  Regenerate on the pinned tree after editing rules:  tools/gen_keyed_locals.py
"""
import ast
import json
import os
import re
import sys

ROOT = os.path.dirname(os.path.dirname(os.path.abspath(__file__)))
sys.path.insert(0, ROOT)
from qv.core.keyed import IDENT, matching_strings  # noqa: E402
from qv.core.repo import Repo  # noqa: E402
from qv.selftest.twins import _locals_of  # noqa: E402



def main():
    repo = Repo()
    funcs = {}  # (module name, qualpath) -> locals
    for mname, m in repo.modules.items():
        def rec(node, path):
            for ch in ast.iter_child_nodes(node):
                if isinstance(ch, (ast.FunctionDef, ast.AsyncFunctionDef)):
                    q = path + [ch.name]
                    funcs[(mname, ".".join(q))] = _locals_of(ch)
                    rec(ch, q)
                elif isinstance(ch, ast.ClassDef):
                    rec(ch, path + [ch.name])
                elif isinstance(ch, (ast.If, ast.Try, ast.With, ast.For, ast.While)):
                    rec(ch, path)
        rec(m.tree, [])
    table = {}
    rules_dir = os.path.join(ROOT, "qv", "rules")
    for fn in sorted(os.listdir(rules_dir)):
        if not re.fullmatch(r"c\d\d\.py", fn):
            continue
        pid = fn[:-3].upper()
        src = open(os.path.join(rules_dir, fn)).read()
        tree = ast.parse(src)
        strs = matching_strings(tree)
        idents = set()
        for s in strs:
            idents |= set(IDENT.findall(s))
        # modules this rule file talks about
        mods = {s for s in strs | {x.value for x in ast.walk(tree) if isinstance(x, ast.Constant) and isinstance(x.value, str)} if s in repo.modules}
        mods |= {x.value.split(":")[0] for x in ast.walk(tree) if isinstance(x, ast.Constant) and isinstance(x.value, str) and ":" in x.value and x.value.split(":")[0] in repo.modules}
        # module-name constants imported from sibling qv modules (e.g. SER from qv.domains.codec)
        for imp in ast.walk(tree):
            if not (isinstance(imp, ast.ImportFrom) and imp.level):
                continue
            base = rules_dir if imp.level == 1 else os.path.join(ROOT, "qv")
            cands = []
            if imp.module:
                cands.append(os.path.join(base, imp.module.replace(".", os.sep) + ".py"))
                cands += [os.path.join(base, imp.module.replace(".", os.sep), al.name + ".py") for al in imp.names]
            else:  # from . import c13
                cands += [os.path.join(base, al.name + ".py") for al in imp.names]
            for cand in cands:
                if os.path.exists(cand):
                    t2 = ast.parse(open(cand).read())
                    mods |= {x.value for x in ast.walk(t2) if isinstance(x, ast.Constant) and isinstance(x.value, str) and x.value in repo.modules}
                    for s_ in matching_strings(t2):
                        idents |= set(IDENT.findall(s_))
        entry = {}
        for (mname, q), loc in funcs.items():
            if mname not in mods:
                continue
            keyed = sorted(n for n in (idents & loc))
            if keyed:
                entry[f"{mname}:{q}"] = keyed
        table[pid] = entry
    out = os.path.join(rules_dir, "keyed_locals.json")
    with open(out, "w") as fh:
        json.dump(table, fh, indent=1, sort_keys=True)
        fh.write("\n")
    print({k: sum(len(v) for v in e.values()) for k, e in table.items()})
    # shapes of every function a rule is keyed on (parents of nested functions), for the alpha-normalisation pre-pass
    from qv.core.alpha import canon_digest, shape_of, statement_digests, top_functions
    shapes = {}
    for mname, m in repo.modules.items():
        for q, fn in top_functions(m.tree):
            key = f"{mname}:{q}"
            digest, order = shape_of(fn)
            shapes[key] = {"digest": digest, "locals": order, "stmts": statement_digests(fn), "canon": canon_digest(fn), "src": ast.unparse(fn)}
    import hashlib
    shapes["__modules__"] = {mname: hashlib.sha256(m.source.encode()).hexdigest()[:20] for mname, m in repo.modules.items()}
    with open(os.path.join(rules_dir, "pinned_shapes.json"), "w") as fh:
        json.dump(shapes, fh, indent=1, sort_keys=True)
        fh.write("\n")
    print(f"pinned shapes: {len(shapes) - 1} functions")


if __name__ == "__main__":
    main()
