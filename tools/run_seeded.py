#!/venv/bin/python
"""Apply every confirmed seeded change under /verif/seeded to a scratch worktree of /repo HEAD and
run the checks against it (QV_REPO=<scratch>, no evidence written).  Prints which checks fire.

usage: tools/run_seeded.py [names...] [--all-checks] [-j N]
"""
import json
import os
import subprocess
import sys
import tempfile
from concurrent.futures import ThreadPoolExecutor

ROOT = os.path.dirname(os.path.dirname(os.path.abspath(__file__)))
SEEDED = os.path.join(ROOT, os.environ.get("QV_CORPUS", "seeded"))
PY = "/venv/bin/python" if os.path.exists("/venv/bin/python") else sys.executable


def built_checks():
    m = json.load(open(os.path.join(ROOT, "MANIFEST.json")))
    return [c["property_id"] for c in m["checks"]]


def run_one(name, all_checks, built):
    d = os.path.join(SEEDED, name)
    meta = json.load(open(os.path.join(d, "meta.json")))
    pid = meta.get("property") or name.split("-")[0]
    base = "/dev/shm" if os.path.isdir("/dev/shm") else tempfile.gettempdir()
    wt = tempfile.mkdtemp(prefix=f"qvseed-{name}-", dir=base)
    os.rmdir(wt)
    res = {"name": name, "property": pid, "fired": [], "errors": [], "applied": False}
    try:
        r = subprocess.run(["git", "-C", "/repo", "worktree", "add", "--detach", wt, "HEAD"],
                           capture_output=True, text=True)
        if r.returncode:
            res["errors"].append("worktree: " + r.stderr.strip())
            return res
        r = subprocess.run(["git", "-C", wt, "apply", "--3way", os.path.join(d, "patch.diff")],
                           capture_output=True, text=True)
        if r.returncode:
            res["errors"].append("patch does not apply: " + r.stderr.strip()[:200])
            return res
        res["applied"] = True
        pids = built if all_checks else ([pid] if pid in built else [])
        env = dict(os.environ, QV_REPO=wt, QV_NO_EVIDENCE="1", PYTHONDONTWRITEBYTECODE="1",
                   QV_REPLAY_DIR=os.path.join(base, "qvseed-replay"))
        for p in pids:
            r = subprocess.run([PY, "-m", "qv.main", p], cwd=ROOT, env=env, capture_output=True, text=True)
            if r.returncode == 1:
                lines = [l.strip() for l in r.stdout.splitlines() if l.strip().startswith("rule=")]
                res["fired"].append((p, lines[:3]))
            elif r.returncode == 2:
                errs = [l for l in r.stdout.splitlines() if l.startswith("ANALYSIS-ERROR")]
                res["errors"].append(f"{p}: " + (errs[0][:200] if errs else "exit 2"))
    finally:
        subprocess.run(["git", "-C", "/repo", "worktree", "remove", "--force", wt], capture_output=True)
        subprocess.run(["rm", "-rf", wt])
    return res


def main():
    args = [a for a in sys.argv[1:] if not a.startswith("-")]
    all_checks = "--all-checks" in sys.argv
    jobs = 8
    if "-j" in sys.argv:
        jobs = int(sys.argv[sys.argv.index("-j") + 1])
        args = [a for a in args if a != str(jobs)]
    names = sorted(args or [n for n in os.listdir(SEEDED) if os.path.isdir(os.path.join(SEEDED, n))])
    built = built_checks()
    with ThreadPoolExecutor(jobs) as ex:
        results = list(ex.map(lambda n: run_one(n, all_checks, built), names))
    caught = 0
    for r in results:
        own = [f for f in r["fired"] if f[0] == r["property"]]
        status = "CAUGHT" if own else ("caught-by-other" if r["fired"] else ("ERROR" if r["errors"] else "missed"))
        if r["property"] not in built and not r["fired"]:
            status = "no-check-yet"
        caught += bool(r["fired"])
        print(f"{r['name']:8s} {status:16s} " + "; ".join(f"{p}: {l[0] if l else ''}"[:170] for p, l in r["fired"])
              + (" | " + " | ".join(r["errors"]) if r["errors"] else ""))
    print(f"{caught}/{len(results)} seeded changes reported by at least one check")
    if "--write-index" in sys.argv:
        idx_path = os.path.join(SEEDED, "INDEX.json")
        try:
            idx = json.load(open(idx_path))
        except Exception:
            idx = {}
        for r in results:
            if not r["applied"]:
                continue
            idx[r["name"]] = {"property": r["property"], "detected_by": sorted(p for p, _ in r["fired"]),
                              "first_report": {p: (l[0] if l else "") for p, l in r["fired"]},
                              "not_recognised_by": sorted({e.split(":")[0] for e in r["errors"] if e[:3] in built})}
        with open(idx_path, "w") as fh:
            json.dump(idx, fh, indent=1, sort_keys=True)
            fh.write("\n")
        print(f"wrote {idx_path} ({len(idx)} entries)")


if __name__ == "__main__":
    main()
