#!/bin/bash
# confirm_seed.sh <ID> <k> : confirm a sub-agent's seeded change in a scratch worktree of /repo HEAD.
# Copies it to /verif/seeded/<ID>-<k>/ with a 'confirmed' record when: the patch applies, the
# demo passes without it and fails with it, and the baseline test suite still passes with it.
ID=$1; K=$2
SRCROOT=${SEEDROOT:-/tmp/seedoutE}; TAG=${SEEDTAG:-}; SRC=$SRCROOT/$ID/$K
[ -f "$SRC/patch.diff" ] || { echo "$ID-$K: no patch"; exit 1; }
WT=/dev/shm/twinchk/$ID-$K
rm -rf "$WT"; mkdir -p /dev/shm/twinchk
git -C /repo worktree add --detach "$WT" HEAD >/dev/null 2>&1 || { echo "$ID-$K: worktree failed"; exit 1; }
cleanup() { git -C /repo worktree remove --force "$WT" >/dev/null 2>&1; rm -rf "$WT"; }
trap cleanup EXIT
cd "$WT"
export PYTHONPATH="$WT/src" PYTHONDONTWRITEBYTECODE=1
timeout 300 /venv/bin/python "$SRC/demo.py" >$SRC/clean.log 2>&1; CLEAN=$?
if ! git apply --check "$SRC/patch.diff" 2>/dev/null; then
  if ! git apply --3way "$SRC/patch.diff" >/dev/null 2>&1; then echo "$ID-$K: patch does not apply to HEAD (clean demo exit $CLEAN)"; exit 2; fi
else
  git apply "$SRC/patch.diff"
fi
timeout 300 /venv/bin/python "$SRC/demo.py" >$SRC/patched.log 2>&1; PATCHED=$?
TESTS=$(timeout 1200 /venv/bin/python -m pytest -q -p no:cacheprovider --timeout=900 tests 2>&1 | tail -1)
git diff > $SRC/patch.head.diff
STATUS=rejected
if [ "$CLEAN" = 0 ] && [ "$PATCHED" = 0 ] && echo "$TESTS" | grep -q "176 passed"; then STATUS=confirmed; fi
echo "$ID-$K: $STATUS clean_demo_exit=$CLEAN patched_demo_exit=$PATCHED tests='$TESTS'"
if [ "$STATUS" = confirmed ]; then
  D=/verif/twins/$ID-$TAG$K; mkdir -p "$D"
  cp $SRC/patch.head.diff "$D/patch.diff"; cp "$SRC/demo.py" "$D/demo.py"
  /venv/bin/python - "$SRC/meta.json" "$D/meta.json" "$CLEAN" "$PATCHED" "$TESTS" <<'PY'
import json,sys
src,dst,clean,patched,tests=sys.argv[1:6]
try: m=json.load(open(src))
except Exception: m={}
out={"property":m.get("property"),"summary":m.get("summary"),"files":m.get("files"),
     "needs_to_manifest":m.get("needs_to_manifest"),
     "confirmed":{"base":"scratch worktree of /repo HEAD (with the fix: commits)","clean_demo_exit":int(clean),
                  "patched_demo_exit":int(patched),"test_suite_with_patch":tests,
                  "ran":["git worktree add --detach <scratch> HEAD","python demo.py (clean)","git apply patch.diff","python demo.py (patched)","python -m pytest -q tests (patched)"]},
     "agent_ran":m.get("ran")}
json.dump(out,open(dst,"w"),indent=1)
PY
fi
