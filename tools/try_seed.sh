#!/bin/bash
# try_seed.sh <corpus-dir-name> [check-id] : apply one seeded change / twin to a scratch worktree, run its check, print the
# non-held lines, remove the worktree.
N=$1; C=${QV_CORPUS:-seeded}; D=/verif/$C/$N
P=${2:-$(/venv/bin/python -c "import json;print(json.load(open('$D/meta.json')).get('property') or '$N'.split('-')[0])")}
WT=/dev/shm/try-$N; rm -rf $WT
git -C /repo worktree add --detach $WT HEAD >/dev/null 2>&1 || exit 3
git -C $WT apply --3way $D/patch.diff >/dev/null 2>&1 || echo "patch does not apply"
cd /verif; QV_REPO=$WT QV_NO_EVIDENCE=1 QV_REPLAY_DIR=/dev/shm/try-replay ./check $P | grep -vE "^\s+(held|ok)" | grep -E "VIOLATION|ANALYSIS-ERROR|rule=|^\[" | cut -c1-${W:-420}
git -C /repo worktree remove --force $WT >/dev/null 2>&1; rm -rf $WT
