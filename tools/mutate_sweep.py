#!/venv/bin/python
"""Gap finder (not a check): apply generic one-token mutation operators inside the functions a property's check analyses, run that
check against each mutant (scratch copy under /dev/shm, never /repo) and list the survivors (exit 0) for reading.

A survivor is NOT a finding by itself: many mutants are equivalent or irrelevant to the property.  The list is read by hand; where a
survivor really breaks the property the rule set is extended.  usage: tools/mutate_sweep.py C13 [C16 …] [-j N] [--max N]
"""
import ast
import json
import os
import shutil
import subprocess
import sys
import tempfile
from concurrent.futures import ThreadPoolExecutor

ROOT = os.path.dirname(os.path.dirname(os.path.abspath(__file__)))
REPO = os.environ.get("QV_REPO", "/repo")
PY = "/venv/bin/python"

SWAP_NAMES = {"fftshift": "ifftshift", "ifftshift": "fftshift", "floor": "ceil", "ceil": "floor", "cos": "sin", "sin": "cos", "min": "max", "max": "min",
              "real": "imag", "imag": "real", "fft2": "ifft2", "ifft2": "fft2", "argmax": "argmin", "zeros": "ones", "ones_like": "zeros_like",
              "zeros_like": "ones_like", "sum": "mean", "mean": "sum", "any": "all", "all": "any", "round": "floor", "arange": "ones"}
BINOP = {ast.Add: "-", ast.Sub: "+", ast.Mult: "/", ast.Div: "*", ast.FloorDiv: "/", ast.Mod: "//"}
CMPOP = {ast.Lt: "<=", ast.LtE: "<", ast.Gt: ">=", ast.GtE: ">", ast.Eq: "!=", ast.NotEq: "==", ast.Is: "is not", ast.IsNot: "is", ast.In: "not in", ast.NotIn: "in"}


def seg(src_lines, node):
    return (node.lineno, node.col_offset, node.end_lineno, node.end_col_offset)


def replace(src: str, node, new: str) -> str:
    lines = src.split("\n")
    l0, c0, l1, c1 = seg(lines, node)
    # col offsets are utf8 byte offsets
    def cut(line, col):
        return line.encode()[:col].decode(), line.encode()[col:].decode()
    pre, _ = cut(lines[l0 - 1], c0)
    _, post = cut(lines[l1 - 1], c1)
    lines[l0 - 1:l1] = [pre + new + post]
    return "\n".join(lines)


def mutants_of(src: str, fn: ast.AST):
    """yield (description, new_source)"""
    for n in ast.walk(fn):
        if isinstance(n, ast.BinOp) and type(n.op) in BINOP:
            new = f"{ast.get_source_segment(src, n.left)} {BINOP[type(n.op)]} {ast.get_source_segment(src, n.right)}"
            yield f"L{n.lineno} binop {type(n.op).__name__}", replace(src, n, "(" + new + ")")
        elif isinstance(n, ast.Compare) and len(n.ops) == 1 and type(n.ops[0]) in CMPOP:
            new = f"{ast.get_source_segment(src, n.left)} {CMPOP[type(n.ops[0])]} {ast.get_source_segment(src, n.comparators[0])}"
            yield f"L{n.lineno} cmp {type(n.ops[0]).__name__}", replace(src, n, "(" + new + ")")
        elif isinstance(n, ast.BoolOp):
            op = " or " if isinstance(n.op, ast.And) else " and "
            yield f"L{n.lineno} boolop", replace(src, n, "(" + op.join(ast.get_source_segment(src, v) for v in n.values) + ")")
        elif isinstance(n, ast.UnaryOp) and isinstance(n.op, (ast.Not, ast.USub)):
            yield f"L{n.lineno} drop {type(n.op).__name__}", replace(src, n, "(" + ast.get_source_segment(src, n.operand) + ")")
        elif isinstance(n, ast.Attribute) and n.attr in SWAP_NAMES and isinstance(n.ctx, ast.Load):
            txt = ast.get_source_segment(src, n)
            if txt and txt.endswith("." + n.attr):
                yield f"L{n.lineno} name {n.attr}->{SWAP_NAMES[n.attr]}", replace(src, n, txt[: -len(n.attr)] + SWAP_NAMES[n.attr])
        elif isinstance(n, ast.Constant) and isinstance(n.value, bool):
            yield f"L{n.lineno} bool {n.value}", replace(src, n, str(not n.value))
        elif isinstance(n, ast.Constant) and isinstance(n.value, int) and not isinstance(n.value, bool) and n.value in (0, 1, 2, -1, -2):
            yield f"L{n.lineno} int {n.value}", replace(src, n, str({0: 1, 1: 0, 2: 1, -1: -2, -2: -1}[n.value]))
        elif isinstance(n, ast.Subscript) and isinstance(n.slice, ast.Tuple) and len(n.slice.elts) == 2:
            a, b = (ast.get_source_segment(src, e) for e in n.slice.elts)
            if a and b and a != b:
                yield f"L{n.lineno} swap index", replace(src, n.slice, f"{b}, {a}")
        elif isinstance(n, ast.Call) and len(n.args) >= 2 and not n.keywords and not any(isinstance(a, ast.Starred) for a in n.args):
            a, b = ast.get_source_segment(src, n.args[0]), ast.get_source_segment(src, n.args[1])
            if a and b and a != b:
                lines_same = n.args[0].lineno == n.args[1].end_lineno
                if lines_same:
                    fake = type("N", (), {"lineno": n.args[0].lineno, "col_offset": n.args[0].col_offset, "end_lineno": n.args[1].end_lineno,
                                          "end_col_offset": n.args[1].end_col_offset})()
                    yield f"L{n.lineno} swap args", replace(src, fake, f"{b}, {a}")


def functions_of(pid):
    ev = json.load(open(os.path.join(ROOT, "evidence", f"{pid}.json")))
    out = []
    for q in ev["coverage"].get("functions_analysed", []):
        if "…" in q or ":" not in q:
            continue
        out.append(q)
    return out


def find_fn(tree, qual):
    node = tree
    for part in qual.split("."):
        base = part.split("@")[0]
        setter = part.endswith("@setter")
        nxt = None
        for ch in ast.walk(node) if node is not tree else node.body:
            if isinstance(ch, (ast.FunctionDef, ast.ClassDef, ast.AsyncFunctionDef)) and ch.name == base and ch is not node:
                if setter and not any(isinstance(d, ast.Attribute) and d.attr == "setter" for d in getattr(ch, "decorator_list", [])):
                    continue
                nxt = ch
                break
        if nxt is None:
            return None
        node = nxt
    return node


def run_mutant(pid, rel, new_src, desc):
    base = "/dev/shm"
    wt = tempfile.mkdtemp(prefix=f"qvmut-{pid}-", dir=base)
    try:
        os.makedirs(os.path.join(wt, "src"))
        # symlink everything, copy only the mutated file's directory chain
        shutil.copytree(os.path.join(REPO, "src"), os.path.join(wt, "src"), dirs_exist_ok=True, copy_function=os.link if os.stat(REPO).st_dev == os.stat(base).st_dev else shutil.copy2)
        p = os.path.join(wt, rel)
        os.remove(p)
        with open(p, "w") as fh:
            fh.write(new_src)
        for extra in ("pyproject.toml",):
            if os.path.exists(os.path.join(REPO, extra)):
                shutil.copy2(os.path.join(REPO, extra), os.path.join(wt, extra))
        env = dict(os.environ, QV_REPO=wt, QV_NO_EVIDENCE="1", PYTHONDONTWRITEBYTECODE="1", QV_REPLAY_DIR=os.path.join(base, "qvmut-replay"))
        r = subprocess.run([PY, "-m", "qv.main", pid], cwd=ROOT, env=env, capture_output=True, text=True)
        first = next((l.strip() for l in r.stdout.splitlines() if l.strip().startswith("rule=")), "")
        return r.returncode, first
    finally:
        shutil.rmtree(wt, ignore_errors=True)


def main():
    args = [a for a in sys.argv[1:] if not a.startswith("-")]
    jobs = int(sys.argv[sys.argv.index("-j") + 1]) if "-j" in sys.argv else 6
    mx = int(sys.argv[sys.argv.index("--max") + 1]) if "--max" in sys.argv else 10 ** 9
    args = [a for a in args if not a.isdigit()]
    for pid in args:
        work = []
        for q in functions_of(pid):
            modname, qual = q.split(":", 1)
            rel = os.path.join("src", *modname.split(".")) + ".py"
            path = os.path.join(REPO, rel)
            if not os.path.exists(path):
                rel = os.path.join("src", *modname.split("."), "__init__.py")
                path = os.path.join(REPO, rel)
            src = open(path).read()
            tree = ast.parse(src)
            fn = find_fn(tree, qual)
            if fn is None:
                continue
            for desc, new in mutants_of(src, fn):
                try:
                    compile(new, path, "exec")
                except SyntaxError:
                    continue
                work.append((q, rel, desc, new))
        # spread the sample over functions
        if len(work) > mx:
            step = len(work) / mx
            work = [work[int(i * step)] for i in range(mx)]
        with ThreadPoolExecutor(jobs) as ex:
            res = list(ex.map(lambda w: run_mutant(pid, w[1], w[3], w[2]), work))
        n1 = sum(1 for rc, _ in res if rc == 1)
        n2 = sum(1 for rc, _ in res if rc == 2)
        n0 = sum(1 for rc, _ in res if rc == 0)
        print(f"== {pid}: {len(work)} mutants: reported {n1}, not recognised (exit 2) {n2}, survived {n0}")
        for (q, rel, desc, _), (rc, first) in zip(work, res):
            if rc == 0:
                print(f"   SURVIVED {q.split(':')[1]} {desc}")


if __name__ == "__main__":
    main()
