#!/bin/bash
# round7.sh ID... : confirm the round-7 (cooperating-pair) seeds of the given properties, run the property's check on each, then the sub-patch twins.
export SEEDROOT=/tmp/seedout7 SEEDTAG=r7-
for id in "$@"; do for k in 1 2; do echo "$id $k"; done; done | xargs -P 8 -L 1 /verif/tools/confirm_seed.sh
names=""
for id in "$@"; do for k in 1 2; do n=$id-r7-$k; [ -d /verif/seeded/$n ] || continue; names="$names $n"; echo "== $n"; /verif/tools/try_seed.sh $n | grep -v KNOWN-FINDING | cut -c1-260 | head -6; done; done
[ -n "$names" ] && /verif/tools/subpatch_twins.py $names -j 12 | grep -v "breaks-alone"
