#!/venv/bin/python
"""Rewrite the seeded-change table of DESIGN.md (between the CATCHES markers) from seeded/INDEX.json and the seeds' meta.json."""
import json
import os
import re

ROOT = os.path.dirname(os.path.dirname(os.path.abspath(__file__)))
idx = json.load(open(os.path.join(ROOT, "seeded", "INDEX.json")))
rows = []
for name in sorted(idx, key=lambda n: (n.split("-")[0], "r2" in n, n)):
    e = idx[name]
    meta = json.load(open(os.path.join(ROOT, "seeded", name, "meta.json")))
    files = ", ".join(os.path.basename(f) for f in (meta.get("files") or []))
    summ = re.sub(r"\s+", " ", (meta.get("summary") or "")).strip()
    summ = summ[:150] + ("…" if len(summ) > 150 else "")
    summ = summ.replace("|", "\\|")
    det = []
    for p in e.get("detected_by", []):
        fr = e.get("first_report", {}).get(p, "")
        m = re.match(r"rule=(\S+)", fr)
        det.append(f"{m.group(1) if m else p}")
    own = e["property"] in e.get("detected_by", [])
    exit2 = e["property"] in e.get("not_recognised_by", [])
    rows.append(f"| {name} | {files} | {summ} | {', '.join(det) or '—'} | {'own' if own else ('other only' if det else ('exit 2' if exit2 else 'MISSED'))} |")
table = ["| seed | file(s) | change (agent's summary, truncated) | first rule reporting it, per detecting check | by |", "|---|---|---|---|---|"] + rows
n_own = sum(1 for r in rows if r.endswith("| own |"))
n_other = sum(1 for r in rows if r.endswith("| other only |"))
n_miss = sum(1 for r in rows if r.endswith("| MISSED |"))
n_e2 = sum(1 for r in rows if r.endswith("| exit 2 |"))
head = (f"{len(rows)} confirmed seeded changes: {n_own} reported (exit 1) by the check of their own property, {n_other} only by another property's check, "
        f"{n_e2} answered with exit 2 (idiom not recognised — the check fails but gives no verdict), {n_miss} missed (exit 0).\n\n")
p = os.path.join(ROOT, "DESIGN.md")
s = open(p).read()
a, b = "<!-- CATCHES:BEGIN -->", "<!-- CATCHES:END -->"
if a not in s:
    raise SystemExit("markers not found in DESIGN.md")
s = s[:s.index(a) + len(a)] + "\n" + head + "\n".join(table) + "\n" + s[s.index(b):]
open(p, "w").write(s)
print(head.strip())
