#!/venv/bin/python
"""Sub-patch twins: for every seeded change that consists of several hunks, apply each single hunk (and each file's hunks) ALONE to a scratch
copy of /repo's src, run the seed's own demonstration, and — when the demonstration PASSES, i.e. that part of the change is harmless by itself —
run the property's check: it must not report a violation (exit 0 or 2).  "Two cooperating sites that each look fine alone" is the case this
guards: a rule that fires on one half is demanding more than the property.

usage: tools/subpatch_twins.py [seed names…]   (default: every seed with ≥ 2 hunks)    -j N
"""
import json
import os
import re
import shutil
import subprocess
import sys
import tempfile
from concurrent.futures import ThreadPoolExecutor

ROOT = os.path.dirname(os.path.dirname(os.path.abspath(__file__)))
SEEDED = os.path.join(ROOT, "seeded")
PY = "/venv/bin/python"


def split(diff: str):
    """[(file header text, [hunk text, …]), …]"""
    files = []
    for part in re.split(r"(?m)^(?=diff --git )", diff):
        if not part.startswith("diff --git "):
            continue
        m = re.search(r"(?m)^@@ ", part)
        if not m:
            continue
        head, body = part[:m.start()], part[m.start():]
        hunks = [h for h in re.split(r"(?m)^(?=@@ )", body) if h.startswith("@@ ")]
        files.append((head, hunks))
    return files


def variants(files):
    """sub-patches: each single hunk; each single file (if > 1 file)."""
    out = []
    n_h = sum(len(h) for _, h in files)
    if n_h < 2:
        return out
    for fi, (head, hunks) in enumerate(files):
        for hi, h in enumerate(hunks):
            out.append((f"f{fi}h{hi}", head + h))
        if len(files) > 1 and len(hunks) > 1:
            out.append((f"f{fi}", head + "".join(hunks)))
    return out


def _added(text):
    return [l[1:] for l in text.splitlines() if l.startswith("+") and not l.startswith("+++")]


def dependent(part_text: str, full_text: str) -> list:
    """names the FULL patch introduces (new functions / methods / parameters / assigned names) that this part uses but does not introduce itself: such a part is
    not a change anyone could make on its own (it calls a helper that does not exist), so it is not a twin"""
    intro = lambda lines: set(re.findall(r"^\s*def\s+(\w+)", "\n".join(lines), re.M)) | set(re.findall(r"^\s*(\w+)\s*(?::[^=\n]+)?=(?!=)", "\n".join(lines), re.M))
    full_new = intro(_added(full_text))
    # only names that do not occur anywhere in the removed/context lines of the full patch (i.e. genuinely new)
    old_lines = "\n".join(l[1:] for l in full_text.splitlines() if l.startswith((" ", "-")) and not l.startswith("---"))
    full_new = {n for n in full_new if not re.search(r"\b%s\b" % re.escape(n), old_lines)}
    mine = intro(_added(part_text))
    used = set(re.findall(r"\b\w+\b", "\n".join(_added(part_text))))
    return sorted((full_new - mine) & used)


def run_variant(name, label, text, pid):
    base = "/dev/shm" if os.path.isdir("/dev/shm") else tempfile.gettempdir()
    wt = tempfile.mkdtemp(prefix=f"qvsub-{name}-{label}-", dir=base)
    res = {"seed": name, "part": label, "applies": False, "demo": None, "check": None, "violations": []}
    try:
        shutil.copytree("/repo/src", os.path.join(wt, "src"))
        pf = os.path.join(wt, "p.diff")
        open(pf, "w").write(text)
        subprocess.run(["git", "init", "-q", wt], capture_output=True)
        r = subprocess.run(["git", "-C", wt, "apply", "--recount", pf], capture_output=True, text=True)
        if r.returncode:
            return res
        res["applies"] = True
        env = dict(os.environ, PYTHONPATH=os.path.join(wt, "src"), PYTHONDONTWRITEBYTECODE="1")
        try:
            d = subprocess.run([PY, os.path.join(SEEDED, name, "demo.py")], capture_output=True, text=True, env=env, timeout=400, cwd=wt)
            res["demo"] = d.returncode
        except subprocess.TimeoutExpired:
            res["demo"] = -9
        if res["demo"] != 0:
            return res  # this part breaks the property (or crashes) by itself: not a twin
        env2 = dict(os.environ, QV_REPO=wt, QV_NO_EVIDENCE="1", QV_REPLAY_DIR=os.path.join(wt, "replay"), QV_NO_SELFTEST="1")
        c = subprocess.run([os.path.join(ROOT, "check"), pid], capture_output=True, text=True, env=env2, cwd=ROOT)
        res["check"] = c.returncode
        res["violations"] = [l.strip()[:220] for l in c.stdout.splitlines() if "rule=" in l and "construct=" in l][:4] if c.returncode == 1 else []
        return res
    finally:
        shutil.rmtree(wt, ignore_errors=True)


def main():
    args = [a for a in sys.argv[1:] if not a.startswith("-")]
    jobs = 8
    if "-j" in sys.argv:
        jobs = int(sys.argv[sys.argv.index("-j") + 1])
        args = [a for a in args if a != str(jobs)]
    names = args or sorted(d for d in os.listdir(SEEDED) if os.path.isfile(os.path.join(SEEDED, d, "patch.diff")))
    work = []
    for n in names:
        meta = json.load(open(os.path.join(SEEDED, n, "meta.json")))
        pid = meta.get("property") or n.split("-")[0]
        full = open(os.path.join(SEEDED, n, "patch.diff")).read()
        for label, text in variants(split(full)):
            dep = dependent(text, full)
            if dep:
                print(f"{n:14s} {label:8s} dependent hunk (uses {dep[:3]} introduced elsewhere in the patch) — not a stand-alone change")
                continue
            work.append((n, label, text, pid))
    with ThreadPoolExecutor(jobs) as ex:
        results = list(ex.map(lambda w: run_variant(*w), work))
    twins = [r for r in results if r["demo"] == 0]
    bad = [r for r in twins if r["check"] == 1]
    for r in results:
        tag = "not-applicable" if not r["applies"] else ("breaks-alone" if r["demo"] != 0 else {0: "twin: exit 0", 1: "twin: FALSE ALARM", 2: "twin: exit 2"}.get(r["check"], f"twin: exit {r['check']}"))
        print(f"{r['seed']:14s} {r['part']:8s} {tag}")
        for v in r["violations"]:
            print("      ", v)
    print(f"{len(results)} sub-patches, {len(twins)} harmless alone (twins), {len(bad)} false alarms, "
          f"{sum(1 for r in twins if r['check'] == 2)} exit 2, {sum(1 for r in twins if r['check'] == 0)} exit 0")
    sys.exit(1 if bad else 0)


if __name__ == "__main__":
    main()
