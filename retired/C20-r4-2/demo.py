"""C20 demo 2: min/max normalisation of signed integer images with a wide range.

The limits are frozen from the data (as show_2d does by passing ``data=``) and
the same data is then normalised.  The data minimum must map to 0, the data
maximum to 1 and the map must be non-decreasing, whatever the integer dtype.
"""

import warnings

import numpy as np

from quantem.core.visualization.custom_normalizations import (
    NORMALIZATION_PRESETS,
    CustomNormalization,
)


def build(preset, data):
    cfg = NORMALIZATION_PRESETS[preset]()
    return CustomNormalization(
        interval_type=cfg.interval_type,
        stretch_type=cfg.stretch_type,
        lower_quantile=cfg.lower_quantile,
        upper_quantile=cfg.upper_quantile,
        vmin=cfg.vmin,
        vmax=cfg.vmax,
        vcenter=cfg.vcenter,
        half_range=cfg.half_range,
        power=cfg.power,
        logarithmic_index=cfg.logarithmic_index,
        asinh_linear_range=cfg.asinh_linear_range,
        data=data,
    )


def check(preset, data):
    norm = build(preset, data)
    out = norm(data)
    assert np.ma.count_masked(out) == 0
    out = np.asarray(out, dtype=np.float64)
    assert out.min() >= 0.0 and out.max() <= 1.0
    flat = data.ravel()
    order = np.argsort(flat, kind="stable")
    assert np.all(np.diff(out.ravel()[order]) >= -1e-12), f"{preset}/{data.dtype}: not monotone"
    lo = out.ravel()[np.argmin(flat)]
    hi = out.ravel()[np.argmax(flat)]
    assert lo == 0.0, f"{preset}/{data.dtype}: data minimum mapped to {lo}"
    assert np.isclose(hi, 1.0), f"{preset}/{data.dtype}: data maximum mapped to {hi}"
    assert np.unique(out).size > 2, f"{preset}/{data.dtype}: contrast collapsed"


def main():
    warnings.simplefilter("ignore")
    rng = np.random.default_rng(7)
    images = [
        rng.integers(-20000, 20001, size=(9, 14)).astype(np.int16),
        rng.integers(-100, 101, size=(5, 11)).astype(np.int8),
        rng.integers(0, 256, size=(6, 7)).astype(np.uint8),
        rng.integers(-300, 900, size=(8, 5)).astype(np.int32),
        rng.normal(size=(7, 9)).astype(np.float32),
    ]
    for img in images:
        # make sure the extremes are present
        img.flat[0] = img.min()
        img.flat[-1] = img.max()
        for preset in ("minmax", "linear_minmax", "log_minmax"):
            check(preset, img)
    print("ok")


if __name__ == "__main__":
    main()
