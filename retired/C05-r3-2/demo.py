"""C05 demo: checkpoint saved without raw data (default) and reloaded with automatic dataset
reloading must continue exactly like the original reconstruction."""
import tempfile
import warnings
from pathlib import Path

import matplotlib

matplotlib.use("Agg")
warnings.filterwarnings("ignore")

import numpy as np

from quantem.core.datastructures.dataset4dstem import Dataset4dstem
from quantem.core.io.serialize import load as autoserialize_load
from quantem.core.utils.utils import electron_wavelength_angstrom
from quantem.diffractive_imaging.dataset_models import PtychographyDatasetRaster
from quantem.diffractive_imaging.detector_models import DetectorPixelated
from quantem.diffractive_imaging.object_models import ObjectPixelated
from quantem.diffractive_imaging.probe_models import ProbePixelated
from quantem.diffractive_imaging.ptychography import Ptychography

N, S, ON, STEP = 16, 8, 32, 2
Q_MAX, E, C10 = 0.5, 300e3, 50


def make_data():
    rng = np.random.default_rng(42)
    arr = rng.random((ON, ON))
    arr -= arr.mean()
    obj = np.exp(1j * arr.astype(np.float32))
    sampling = 1 / Q_MAX / 2
    rs = 2 * Q_MAX / N
    q = np.fft.fftfreq(N, sampling)
    qq = np.sqrt(q[:, None] ** 2 + q[None] ** 2)
    ap = np.sqrt(np.clip((Q_MAX / 2 - qq) / rs + 0.5, 0, 1))
    pf = ap * np.exp(-1j * qq**2 * electron_wavelength_angstrom(E) * np.pi * C10)
    pf /= np.sqrt(np.sum(np.abs(pf) ** 2))
    probe = np.fft.ifft2(pf) * N
    x = np.arange(S) * STEP
    xx, yy = np.meshgrid(x, x, indexing="ij")
    pos = np.stack((xx.ravel(), yy.ravel()), -1)
    xi = np.fft.fftfreq(N, 1 / N).astype(int)
    row = (pos[:, 0][:, None, None] + xi[None, :, None]) % ON
    col = (pos[:, 1][:, None, None] + xi[None, None, :]) % ON
    inten = np.abs(np.fft.fft2(obj[row, col] * probe)) ** 2
    dset = Dataset4dstem.from_array(
        array=np.fft.fftshift(inten * 100, axes=(-2, -1)).reshape((S, S, N, N)).astype(np.float32),
        sampling=(STEP * sampling, STEP * sampling, rs, rs),
        units=("A", "A", "A^-1", "A^-1"),
    )
    return dset, probe


def make_ptycho(raw_path, probe):
    # file-backed dataset, as it would be for experimental data
    raw = autoserialize_load(raw_path)
    raw.file_path = raw_path
    pdset = PtychographyDatasetRaster.from_dataset4dstem(raw, verbose=0)
    pdset.preprocess(
        com_fit_function="constant",
        plot_rotation=False,
        plot_com=False,
        probe_energy=E,
        force_com_rotation=0,
        force_com_transpose=False,
    )
    om = ObjectPixelated.from_uniform(num_slices=1, obj_type="complex", slice_thicknesses=1)
    pm = ProbePixelated.from_array(
        num_probes=1,
        probe_params={"energy": E, "C10": C10, "semiangle_cutoff": 20},
        probe_array=probe,
    )
    pt = Ptychography.from_models(
        dset=pdset,
        obj_model=om,
        probe_model=pm,
        detector_model=DetectorPixelated(),
        rng=42,
        verbose=0,
    )
    pt.preprocess(obj_padding_px=(4, 4), plot_rotation=False, plot_com=False)
    return pt


def compare(a, b, what):
    assert a.num_iters == b.num_iters, f"{what}: iteration count {a.num_iters} vs {b.num_iters}"
    assert np.array_equal(a.obj_padding_px, b.obj_padding_px), f"{what}: padding differs"
    assert np.allclose(a.iter_losses, b.iter_losses, rtol=1e-4), (
        f"{what}: losses differ\n{a.iter_losses}\n{b.iter_losses}"
    )
    assert a.obj.shape == b.obj.shape, f"{what}: object shape {a.obj.shape} vs {b.obj.shape}"
    # compare inside the illuminated field of view (unconstrained padding pixels only carry
    # optimizer round-off noise)
    fov = a.obj_fov_mask > 0.5
    assert fov.shape == a.obj.shape
    assert np.allclose(a.obj[fov], b.obj[fov], atol=1e-3), (
        f"{what}: object differs by {np.abs(a.obj[fov] - b.obj[fov]).max()}"
    )
    assert np.allclose(a.probe, b.probe, rtol=1e-3, atol=1e-4 * np.abs(a.probe).max()), (
        f"{what}: probe differs"
    )
    for k in a.iter_lrs:
        assert np.allclose(a.iter_lrs[k], b.iter_lrs[k]), f"{what}: lr history differs for {k}"


def main():
    opt = {"object": {"type": "adam", "lr": 5e-2}, "probe": {"type": "adam", "lr": 1e-2}}
    with tempfile.TemporaryDirectory() as td:
        raw, probe = make_data()
        raw_path = Path(td) / "raw_4dstem.zip"
        raw.save(raw_path)

        ref = make_ptycho(raw_path, probe)
        ref.reconstruct(num_iters=3, reset=True, optimizer_params=opt, batch_size=S * S)

        ckpt = Path(td) / "ckpt.zip"
        ref.save(ckpt, verbose=0)  # default: raw data skipped, dataset metadata stored instead
        loaded = Ptychography.from_file(ckpt)  # dataset reloaded + re-preprocessed from metadata

        compare(ref, loaded, "as saved")

        ref.reconstruct(num_iters=3)
        loaded.reconstruct(num_iters=3)
        compare(ref, loaded, "continued")
        assert np.allclose(
            ref.dset.scan_positions_px.detach().numpy(),
            loaded.dset.scan_positions_px.detach().numpy(),
            atol=1e-4,
        ), "scan positions of the reloaded dataset differ from the original reconstruction"
    print("OK: reloaded reconstruction continues like the original")


if __name__ == "__main__":
    main()
