"""C20 demo 3: min/max ("manual" interval without explicit limits) normalisation of signed
narrow-integer images (raw detector counts after background subtraction, int8 / int16 / int32)
whose value span exceeds half the dtype range.

The normalisation frozen from the data must map the data into [0, 1], be non-decreasing, and
send the frozen limits norm.vmin / norm.vmax to 0 / 1, for every stretch and preset.
"""

import warnings

import numpy as np

from quantem.core.visualization.custom_normalizations import (
    NORMALIZATION_PRESETS,
    CustomNormalization,
)

warnings.simplefilter("ignore")


def check(norm, data, label):
    flat = np.sort(data.ravel())
    out = np.asarray(norm(flat), dtype=float)
    assert np.all(np.isfinite(out)), f"{label}: non-finite output"
    assert out.min() >= 0.0 and out.max() <= 1.0, f"{label}: out of [0, 1]"
    assert np.all(np.diff(out) >= 0), f"{label}: not non-decreasing"
    lims = np.asarray(norm(np.array([norm.vmin, norm.vmax], dtype=float)))
    assert lims[0] == 0.0 and lims[1] == 1.0, f"{label}: limits map to {lims}, not (0, 1)"
    assert out[0] == 0.0 and out[-1] == 1.0, f"{label}: data min/max map to {out[0]}, {out[-1]}"
    back = norm.inverse(np.array([0.0, 1.0]))
    assert np.allclose(back, [float(flat[0]), float(flat[-1])]), f"{label}: inverse gives {back}"


rng = np.random.default_rng(3)
images = {
    "int8": rng.integers(-100, 101, size=(9, 14)).astype(np.int8),
    "int16": rng.integers(-20000, 20001, size=(11, 7)).astype(np.int16),
    "int32": rng.integers(-(2**30) - 5, 2**30 + 5, size=(5, 6)).astype(np.int32),
}
images["int8"].flat[:2] = (-100, 100)
images["int16"].flat[:2] = (-20000, 20000)
images["int32"].flat[:2] = (-(2**30) - 5, 2**30 + 4)

for name, img in images.items():
    for preset in ("minmax", "linear_minmax", "log_minmax"):
        cfg = NORMALIZATION_PRESETS[preset]()
        norm = CustomNormalization(
            interval_type=cfg.interval_type,
            stretch_type=cfg.stretch_type,
            lower_quantile=cfg.lower_quantile,
            upper_quantile=cfg.upper_quantile,
            vmin=cfg.vmin,
            vmax=cfg.vmax,
            vcenter=cfg.vcenter,
            half_range=cfg.half_range,
            power=cfg.power,
            logarithmic_index=cfg.logarithmic_index,
            asinh_linear_range=cfg.asinh_linear_range,
            data=img,
        )
        check(norm, img, f"{name}/{preset}")

    # only the lower limit given, upper limit frozen from the data
    lo = int(img.min()) // 2
    norm = CustomNormalization(interval_type="manual", stretch_type="power", power=0.5, vmin=lo, data=img)
    out = np.asarray(norm(np.array([lo, int(img.max())], dtype=float)))
    assert out[0] == 0.0 and out[1] == 1.0, f"{name}/partial: limits map to {out}"

# sanity: small-span integer images and float images of the same values
for img in (np.arange(-20, 21, dtype=np.int8).reshape(1, -1), images["int16"].astype(np.float32)):
    check(CustomNormalization(interval_type="manual", data=img), img, f"sanity/{img.dtype}")

print("ok")
